"""C16 — image datasets faithfully encode input rasters, masks, nodata and ROI.

Chain: pandora/img_tools.py  ==correspondence==  Model/Dataset.lean  ==theorems (Properties/C16.lean)==>  spec.
Two streams:
  * "window":  the real `get_window` on every ROI of a small scope (exhaustive) — model, spec, implementation;
  * "dataset": rasters / masks / grids / classification / segmentation written with rasterio into a temporary
               directory, read by the real `create_dataset_from_inputs` without and with a ROI; the returned
               xarray.Dataset is compared cell by cell with the Lean model and the Lean specification is
               evaluated on it (per-read clauses, and ROI read = crop of the full read).
"""
from __future__ import annotations

import copy
import itertools
import json

from .. import core
from ..impl import imgtools_io as io

PROP = "C16"

DEFAULT_PARAMS = {
    "colOffStrict": True, "rowOffStrict": True, "colEndStrict": True, "rowEndStrict": True,
    "maskCmp": "gt", "validPixels": 0, "noDataMask": 1, "replacement": -9999,
}


def translate():
    from translator import registry

    out = registry.generate("ImgTools")
    # get_window regenerated from the source (translator/pyexpr.py): Generated/KernelsGlue.lean, Properties/C16Kernels.lean
    from translator import gen_kernels_glue

    out.update(gen_kernels_glue.generate("getWindow"))
    # add_mask / add_no_data / add_disparity / the tail of create_dataset_from_inputs regenerated (translator/gen_kernels_dataset.py):
    # Generated/KernelsDataset.lean, Properties/C16KernelsDataset.lean
    out.update(registry.generate("KernelsDataset"))
    return out


def source_params(report, status):
    """operators / constants the translator reads in the source text (the model is run with them)"""
    from translator import gen_imgtools

    try:
        p = gen_imgtools.extract()
    except Exception:  # already reported by build_and_audit as a translator problem
        return dict(DEFAULT_PARAMS)
    return p


def translator_cross_check(report, status, params):
    """extracted constants == what a live dataset carries"""
    case = {
        "rows": 1, "cols": 1, "dtype": "uint8", "bands": [[[1]]], "band_names": [None], "nodata": 0,
        "mask": None, "disp": "absent", "classif": None, "segm": None, "roi": None,
    }
    res = io.run_case(case)
    report.translator_checks += 1
    if isinstance(res["full"], tuple):
        facts = res["full"][1]
        if facts["valid_pixels"] != params["validPixels"] or facts["no_data_mask"] != params["noDataMask"]:
            status.problem("translator", "valid_pixels / no_data_mask read in the source differ from the live dataset attributes")


# ------------------------------------------------------------------------------------------------
# generators
# ------------------------------------------------------------------------------------------------
def gen_roi(rng, rows, cols):
    def axis(size):
        r = rng.random()
        if r < 0.12:  # touches the edge exactly (first - m == size, or last + m == -1)
            m = rng.randrange(0, 3)
            if rng.random() < 0.5:
                first = size + m
                return first, first + rng.randrange(0, 3), m, rng.randrange(0, 3)
            m2 = rng.randrange(0, 3)
            last = -1 - m2
            return last - rng.randrange(0, 3), last, rng.randrange(0, 3), m2
        if r < 0.22:  # entirely outside
            if rng.random() < 0.5:
                first = size + 1 + rng.randrange(0, 3)
                return first + 3, first + 3 + rng.randrange(0, 3), rng.randrange(0, 3), rng.randrange(0, 3)
            last = -2 - rng.randrange(0, 3)
            return last - 3 - rng.randrange(0, 3), last - 3, rng.randrange(0, 3), rng.randrange(0, 3)
        first = rng.randrange(-2, size + 2)
        last = rng.randrange(first, size + 3)
        return first, last, rng.randrange(0, 4), rng.randrange(0, 4)

    def inside(size):
        first = rng.randrange(0, size)
        return first, rng.randrange(first, size), rng.randrange(0, 3), rng.randrange(0, 3)

    mode = rng.random()
    if mode < 0.35:  # mostly meeting the image on the other axis
        (cf, cl, ml, mr), (rf, rl, mu, md) = axis(cols), inside(rows)
    elif mode < 0.7:
        (cf, cl, ml, mr), (rf, rl, mu, md) = inside(cols), axis(rows)
    else:
        (cf, cl, ml, mr), (rf, rl, mu, md) = axis(cols), axis(rows)
    return {"col": {"first": cf, "last": cl}, "row": {"first": rf, "last": rl}, "margins": [ml, mu, mr, md]}


def gen_case(rng):
    rows = rng.choice([1, 2, 3, 4, 5, 6, 7, 9])
    cols = rng.choice([1, 2, 3, 4, 5, 6, 8, 9])
    nb = rng.choice([1, 1, 1, 2, 3])
    dtype = rng.choice(["uint8", "int16", "uint16", "float32", "float32", "float64"])
    isfloat = dtype in ("float32", "float64")
    # nodata value
    if isfloat:
        nodata = rng.choice(["nan", "nan", "inf", "-inf", -9999, 0, 2, "5/2", "-3/4"])
    else:
        nodata = rng.choice([-9999, 0, 0, 2, 3, "nan", "inf"])
    dense = rng.random() < 0.25

    def sample():
        if dtype in ("uint8", "uint16"):
            return rng.randrange(0, 6)
        if dtype == "int16":
            return rng.randrange(-4, 7)
        r = rng.random()
        if r < (0.25 if dense else 0.06):
            return rng.choice(["nan", "inf", "-inf"])
        k = rng.randrange(-12, 25)
        return core.enc(core.Fraction(k, 4))

    bands = [[[sample() for _ in range(cols)] for _ in range(rows)] for _ in range(nb)]
    # plant the nodata value (borders, blobs) unless this case is meant to have nothing to flag
    nothing = rng.random() < 0.2
    representable = not (not isfloat and isinstance(nodata, str)) and not (dtype in ("uint8", "uint16") and nodata == -9999)
    for b in range(nb):
        for r in range(rows):
            for c in range(cols):
                same = bands[b][r][c] == nodata or (nodata in ("inf", "-inf") and bands[b][r][c] in ("inf", "-inf"))
                if nothing and same:
                    bands[b][r][c] = 1
                elif not nothing and representable and rng.random() < (0.3 if (r in (0, rows - 1) or c in (0, cols - 1)) else 0.1) * (0.5 if nb > 1 else 1):
                    bands[b][r][c] = nodata
    # samples very close to, but different from, a finite nodata value: they are ordinary samples ("equals" means equals)
    if isfloat and not isinstance(nodata, str) or (isfloat and isinstance(nodata, str) and "/" in nodata):
        nd = core.Fraction(nodata) if not isinstance(nodata, str) else core.Fraction(nodata)
        if rng.random() < 0.5:
            eps = core.Fraction(1, 1024) if abs(nd) > 100 else core.Fraction(1, 2 ** 20)
            for _ in range(rng.randrange(1, 4)):
                b, r, c = rng.randrange(nb), rng.randrange(rows), rng.randrange(cols)
                bands[b][r][c] = core.enc(nd + rng.choice([-1, 1]) * eps)
    names = [None] * nb
    if nb > 1 and rng.random() < 0.8:
        names = rng.sample(["r", "g", "b", "nir", "swir"], nb)
    # mask
    mask, mask_dtype, mask_key = None, "int16", rng.choice(["absent", "null"])
    r = rng.random()
    if r < 0.55 and not (nothing and rng.random() < 0.7):
        mask_dtype = rng.choice(["int16", "int16", "uint8", "uint16", "int32", "uint32"])
        lo = -3 if (mask_dtype in ("int16", "int32") and rng.random() < 0.35) else 0
        zero = rng.random() < 0.12
        mask = [[0 if (zero or rng.random() < 0.6) else rng.randrange(lo, 4) for _ in range(cols)] for _ in range(rows)]
        # values whose low byte / low half-word is zero: "non-zero" is about the value, not about a narrower view of it
        wide = {"int16": [256, 512, -256, -32768], "uint16": [256, 32768, 65280],
                "int32": [256, 65536, 131072, -65536, -2147483648, 1 << 24], "uint32": [256, 65536, 1 << 31, 3 << 16]}
        if mask_dtype in wide and rng.random() < 0.6:
            for _ in range(rng.randrange(1, 4)):
                mask[rng.randrange(rows)][rng.randrange(cols)] = rng.choice(wide[mask_dtype])
        mask_key = "given"
    # disparity
    r = rng.random()
    if r < 0.2:
        disp = "absent"
    elif r < 0.3:
        disp = None
    elif r < 0.7:
        a = rng.randrange(-5, 4)
        disp = [a, a + rng.randrange(0, 6)]
    else:
        dmin = [[rng.randrange(-5, 3) for _ in range(cols)] for _ in range(rows)]
        dmax = [[dmin[i][j] + rng.randrange(0, 5) for j in range(cols)] for i in range(rows)]
        disp = {"grid": [dmin, dmax]}
    classif = None
    if rng.random() < 0.3:
        k = rng.randrange(1, 4)
        classif = {
            "names": rng.sample(["water", "veg", "road", "roof"], k) if rng.random() < 0.8 else [None] * k,
            "px": [[[rng.randrange(0, 4) for _ in range(cols)] for _ in range(rows)] for _ in range(k)],
        }
    segm = [[rng.randrange(0, 6) for _ in range(cols)] for _ in range(rows)] if rng.random() < 0.3 else None
    roi = gen_roi(rng, rows, cols) if rng.random() < 0.8 else None
    return {
        "kind": "dataset", "rows": rows, "cols": cols, "dtype": dtype, "bands": bands, "band_names": names,
        "nodata": nodata, "mask": mask, "mask_dtype": mask_dtype, "mask_key": mask_key, "disp": disp,
        "classif": classif, "segm": segm, "roi": roi,
    }


def fail(report, clause, trigger, case, impl=None, detail=""):
    """forward at most 3 failures per (clause, trigger): `Report.failures` is capped, and repeated instances of a
    known finding must not crowd out a different failure"""
    seen = report.__dict__.setdefault("_c16_seen", {})
    n = seen.get((clause, trigger), 0)
    seen[(clause, trigger)] = n + 1
    if n < 3:
        report.fail(clause, trigger, case, impl, detail)
    else:
        report.count(f"more_failures:{clause}:{trigger}")


def lean_input(case):
    return {
        "rows": case["rows"], "cols": case["cols"], "bands": case["bands"], "band_names": case["band_names"],
        "nodata": case["nodata"], "mask": case["mask"], "disp": case["disp"], "classif": case["classif"],
        "segm": case["segm"],
    }


# ------------------------------------------------------------------------------------------------
# one case
# ------------------------------------------------------------------------------------------------
DS_FIELDS = ["rows", "cols", "nbands", "band_names", "im", "row", "col", "disp", "msk", "classif", "segm", "no_data_img"]


def ds_diff(a, b):
    return [k for k in DS_FIELDS if a.get(k) != b.get(k)]


def roi_wf(roi):
    return roi["col"]["first"] <= roi["col"]["last"] and roi["row"]["first"] <= roi["row"]["last"] and all(m >= 0 for m in roi["margins"])


def mask_trigger(ctx, case, clause, impl_full, impl_roi):
    """`mask_negative_value` iff the failure of `clause` disappears when the negative values of the input mask
    are read as 0 (i.e. it is entirely explained by `input_mask > 0` treating negative values as valid)."""
    if case["mask"] is None or not any(v < 0 for row in case["mask"] for v in row):
        return "mask_class_wrong"
    alt = copy.deepcopy(case)
    alt["mask"] = [[0 if v < 0 else v for v in row] for row in case["mask"]]
    try:
        sp = ctx.lean.call("C16.spec", input=lean_input(alt), impl_full=impl_full, roi=case["roi"] if impl_roi is not None else None,
                           impl_roi=impl_roi)
    except RuntimeError:
        return "mask_class_wrong"
    vals = dict(map(tuple, sp["read"]))
    if sp.get("roi"):
        for k, v in sp["roi"]:
            vals[k] = vals.get(k, True) and v
    return "mask_negative_value" if vals.get(clause, False) else "mask_class_wrong"


def check_dataset_case(ctx, report, case, params, label):
    impl = io.run_case(case)
    inp = lean_input(case)
    roi = case.get("roi")
    if roi is not None and not roi_wf(roi):
        roi = None
    key = json.dumps(case, sort_keys=True)
    # ---------------- implementation raised on a plain read: the dataset is not built
    if not isinstance(impl["full"], tuple):
        report.case(key, True)
        fail(report, "samples_float32_same", "exception_full_read", case, impl["full"], "create_dataset_from_inputs raised")
        return
    full_ds, full_facts = impl["full"]
    impl_roi = None
    roi_facts = None
    if roi is not None:
        if impl["roi"] == "refused":
            impl_roi = "refused"
        elif isinstance(impl["roi"], tuple):
            impl_roi, roi_facts = impl["roi"]
        else:
            report.case(key, True)
            fail(report, "roi_eq_crop", "exception_roi_read", case, impl["roi"], "create_dataset_from_inputs(roi) raised")
            return
    # ---------------- correspondence: model == implementation
    m_full = ctx.lean.call("C16.create", params=params, input=inp, roi=None)
    if m_full["model"] == "refused" or ds_diff(m_full["model"], full_ds):
        report.disagree("full_read:" + ",".join(ds_diff(m_full["model"], full_ds) if m_full["model"] != "refused" else ["refused"]),
                        case, full_ds, m_full["model"])
    if roi is not None:
        m_roi = ctx.lean.call("C16.create", params=params, input=inp, roi=roi)["model"]
        if (m_roi == "refused") != (impl_roi == "refused"):
            report.disagree("roi_read:refusal", case, impl_roi if impl_roi == "refused" else "dataset", m_roi if m_roi == "refused" else "dataset")
        elif m_roi != "refused" and ds_diff(m_roi, impl_roi):
            report.disagree("roi_read:" + ",".join(ds_diff(m_roi, impl_roi)), case, impl_roi, m_roi)
    # ---------------- specification on the implementation's datasets
    sp = ctx.lean.call("C16.spec", input=inp, impl_full=full_ds, roi=roi, impl_roi=impl_roi)
    failed = [(k, "read") for k, v in sp["read"] if not v]
    if sp.get("roi"):
        failed += [(k, "roi") for k, v in sp["roi"] if not v]
    seen = set()
    for clause, where in failed:
        if clause in seen:
            continue
        seen.add(clause)
        if clause in ("invalid_iff_mask_nonzero", "valid_otherwise"):
            trig = mask_trigger(ctx, case, clause, full_ds, impl_roi if roi is not None else None)
        elif clause == "roi_outside_refused":
            w = ctx.lean.call("C16.window", params=params, roi=roi, width=case["cols"], height=case["rows"])
            empty = impl_roi != "refused" and impl_roi["rows"] * impl_roi["cols"] == 0
            trig = "roi_touches_image_edge" if (w["at_edge"] and w["spec"] is None and empty) else "roi_refusal_wrong"
        else:
            trig = f"{where}_read"
        fail(report, clause, trig, case, {"full": full_ds, "roi": impl_roi}, f"clause false on the {where} dataset")
    # Python-side facts the Lean layout does not carry (dtype, dims, band_disp)
    for facts, which in ((full_facts, "full"), (roi_facts, "roi")):
        if facts is None:
            continue
        if facts["im_dtype"] != "float32":
            fail(report, "samples_float32_same", "im_not_float32", case, facts)
        if facts.get("band_disp") not in (None, ["min", "max"]) or ("disp_dims" in facts and facts["disp_dims"] != ["band_disp", "row", "col"]):
            fail(report, "disparity_var", "band_disp_names", case, facts)
        if "msk_dtype" in facts and facts["msk_dims"] != ["row", "col"]:
            fail(report, "no_mask_when_nothing", "msk_dims", case, facts)
    # ---------------- bookkeeping
    has_nodata = any(v == 1 for row in (full_ds["msk"] or []) for v in row)
    nontrivial = has_nodata or case["mask"] is not None or roi is not None or case["disp"] not in ("absent", None)
    report.case(key, nontrivial, sample={"rows": case["rows"], "cols": case["cols"], "dtype": case["dtype"], "nodata": case["nodata"],
                                        "roi": roi, "msk": full_ds["msk"]})
    for k, v in sp["read"]:
        if k in ("nodata_iff_equal",) and not has_nodata:
            continue
        if k == "invalid_iff_mask_nonzero" and not (case["mask"] and any(v2 != 0 for row in case["mask"] for v2 in row)):
            continue
        if k == "nan_inf_replaced" and not (isinstance(case["nodata"], str) and case["nodata"] in ("nan", "inf", "-inf") and has_nodata):
            continue
        if k == "no_mask_when_nothing" and full_ds["msk"] is not None:
            continue
        if k == "disparity_var" and case["disp"] in ("absent", None):
            continue
        if k == "classif_segm_same" and case["classif"] is None and case["segm"] is None:
            continue
        if k == "band_names" and full_ds["nbands"] == 1:
            continue
        report.hit(k)
    if roi is not None:
        report.hit("roi_outside_refused:" + ("refused" if impl_roi == "refused" else "kept"))
        if impl_roi != "refused":
            report.hit("roi_eq_crop")
            if impl_roi["rows"] and impl_roi["cols"] and (impl_roi["row"][0] != 0 or impl_roi["col"][0] != 0):
                report.hit("roi_coords:offset")
    report.count(f"dtype_{case['dtype']}")
    report.count(f"bands_{full_ds['nbands']}")
    report.count("nodata_" + str(case["nodata"]))
    report.count("mask_" + ("none" if case["mask"] is None else ("negative" if any(v < 0 for r_ in case["mask"] for v in r_) else "nonneg")))
    report.count("msk_var_" + ("absent" if full_ds["msk"] is None else "present"))
    report.count("roi_" + ("none" if roi is None else "given"))


def check_window_batch(ctx, report, rois, width, height, params):
    rois = list(rois)
    ws = ctx.lean.call("C16.windows", params=params, rois=rois, width=width, height=height)
    for roi, w in zip(rois, ws):
        check_window_case(ctx, report, {"kind": "window", "roi": roi, "width": width, "height": height}, params, w)


def check_window_case(ctx, report, case, params, w=None):
    roi, width, height = case["roi"], case["width"], case["height"]
    impl = io.real_get_window(roi, width, height)
    if w is None:
        w = ctx.lean.call("C16.window", params=params, roi=roi, width=width, height=height)
    if not w["wf"]:
        return
    key = ("w", width, height, json.dumps(roi, sort_keys=True))
    report.case(key, True)
    if isinstance(impl, dict):
        fail(report, "roi_outside_refused", "get_window_exception", case, impl)
        return
    if impl != w["model"]:
        report.disagree("get_window", case, impl, w["model"])
    if impl != w["spec"]:
        if (impl is None) != (w["spec"] is None):
            empty = impl is not None and (impl[2] == 0 or impl[3] == 0)
            trig = "roi_touches_image_edge" if (w["at_edge"] and w["spec"] is None and empty) else "roi_refusal_wrong"
            fail(report, "roi_outside_refused", trig, case, impl, f"spec window {w['spec']}")
        else:
            fail(report, "roi_eq_crop", "window_not_clip", case, impl, f"spec window {w['spec']}")
    report.hit("window:" + ("refused" if w["spec"] is None else "kept"))


def window_scope(width, height, lo, hi, mmax):
    """every well-formed ROI with corners in [lo, size + hi] and margins in [0, mmax] on one axis, the other axis
    taking a few representative positions (inside, at both edges, outside)"""
    def axis(size):
        out = []
        for first in range(lo, size + hi + 1):
            for last in range(first, size + hi + 1):
                for m1 in range(0, mmax + 1):
                    for m2 in range(0, mmax + 1):
                        out.append((first, last, m1, m2))
        return out

    def reps(size):
        return [(0, size - 1, 0, 0), (1, 1, 1, 0), (size, size + 1, 0, 0), (-2, -1, 0, 0), (size + 1, size + 2, 0, 0), (-3, -2, 0, 0)]

    for (cf, cl, ml, mr) in axis(width):
        for (rf, rl, mu, md) in reps(height):
            yield {"col": {"first": cf, "last": cl}, "row": {"first": rf, "last": rl}, "margins": [ml, mu, mr, md]}
    for (rf, rl, mu, md) in axis(height):
        for (cf, cl, ml, mr) in reps(width):
            yield {"col": {"first": cf, "last": cl}, "row": {"first": rf, "last": rl}, "margins": [ml, mu, mr, md]}



# ------------------------------------------------------------------------------------------------
# shrinking of a failing dataset case (same clause and trigger must keep failing)
# ------------------------------------------------------------------------------------------------
def _crop_case(case, r0, r1, c0, c1):
    out = copy.deepcopy(case)
    out["rows"], out["cols"] = r1 - r0, c1 - c0
    out["bands"] = [[row[c0:c1] for row in band[r0:r1]] for band in case["bands"]]
    if case["mask"] is not None:
        out["mask"] = [row[c0:c1] for row in case["mask"][r0:r1]]
    if isinstance(case["disp"], dict):
        out["disp"] = {"grid": [[row[c0:c1] for row in band[r0:r1]] for band in case["disp"]["grid"]]}
    if case["classif"] is not None:
        out["classif"] = {"names": case["classif"]["names"], "px": [[row[c0:c1] for row in band[r0:r1]] for band in case["classif"]["px"]]}
    if case["segm"] is not None:
        out["segm"] = [row[c0:c1] for row in case["segm"][r0:r1]]
    return out


def _candidates(case):
    if case.get("roi") is not None:
        yield dict(case, roi=None)
    for k in ("classif", "segm"):
        if case.get(k) is not None:
            yield dict(case, **{k: None})
    if case["disp"] not in ("absent",):
        yield dict(case, disp="absent")
    if case["mask"] is not None:
        yield dict(case, mask=None, mask_key="absent")
    if len(case["bands"]) > 1:
        for b in range(len(case["bands"])):
            yield dict(case, bands=[case["bands"][b]], band_names=[case["band_names"][b]])
    if case.get("roi") is None:  # cropping changes the meaning of ROI coordinates: only without ROI
        R, C = case["rows"], case["cols"]
        if R > 1:
            yield _crop_case(case, 0, R // 2 if R > 2 else 1, 0, C)
            yield _crop_case(case, R // 2 if R > 2 else 1, R, 0, C)
            yield _crop_case(case, 1, R, 0, C)
            yield _crop_case(case, 0, R - 1, 0, C)
        if C > 1:
            yield _crop_case(case, 0, R, 0, C // 2 if C > 2 else 1)
            yield _crop_case(case, 0, R, C // 2 if C > 2 else 1, C)
            yield _crop_case(case, 0, R, 1, C)
            yield _crop_case(case, 0, R, 0, C - 1)
    else:
        roi = case["roi"]
        if any(roi["margins"]):
            yield dict(case, roi=dict(roi, margins=[0, 0, 0, 0]))
        R, C = case["rows"], case["cols"]  # dropping the last rows / columns keeps the meaning of the ROI coordinates
        if R > 1:
            yield _crop_case(case, 0, R // 2 if R > 2 else 1, 0, C)
            yield _crop_case(case, 0, R - 1, 0, C)
        if C > 1:
            yield _crop_case(case, 0, R, 0, C // 2 if C > 2 else 1)
            yield _crop_case(case, 0, R, 0, C - 1)


def shrink(ctx, params, failure, budget=120):
    """greedy: apply the first candidate that keeps (clause, trigger) failing, until none does"""
    case = failure["case"]
    if case.get("kind") != "dataset":
        return failure
    best = failure
    progress = True
    while progress and budget > 0:
        progress = False
        for cand in _candidates(best["case"]):
            budget -= 1
            sub = core.Report(PROP, ctx.tier, ctx.seed)
            try:
                check_dataset_case(ctx, sub, cand, params, "shrink")
            except Exception:  # pylint: disable=broad-except
                continue
            hit = next((f for f in sub.failures if f["clause"] == failure["clause"] and f["trigger"] == failure["trigger"]), None)
            if hit is not None:
                best = hit
                progress = True
                break
            if budget <= 0:
                break
    return best


def shrink_first_unknown(ctx, report, params):
    known = core.load_known(PROP)
    for i, f in enumerate(report.failures):
        if not any(k.get("clause") == f["clause"] and k.get("trigger") == f["trigger"] for k in known):
            small = shrink(ctx, params, f)
            if small is not f:
                small = dict(small, detail=(small.get("detail") or "") + " [shrunk from a larger generated case]")
                report.failures[i] = small
            return


def check_case(ctx, report, case, params, label=""):
    if case.get("kind") == "window":
        check_window_case(ctx, report, case, params)
    else:
        check_dataset_case(ctx, report, case, params, label)


# ------------------------------------------------------------------------------------------------
# entry points
# ------------------------------------------------------------------------------------------------
def dataset_kernel_cross_check(ctx, report, status):
    """T15 (dataset construction): the real `add_mask`, `add_no_data`, `add_disparity` and the nodata detection against the
    exact evaluation of the trees `Generated/KernelsDataset.lean` is printed from.  The mask file is replaced by an object
    whose `read` returns the generated raster (any integer dtype: int32 / int64 masks hold multiples of 65536, uint8 masks
    hold 128..255, int16 masks negative values); rasters are float32 images coming from float32 / uint8 / int16 data."""
    import random

    import numpy as np
    import xarray as xr

    from translator import gen_kernels_dataset as gk

    try:
        f = gk.functions()
    except Exception:  # already reported by build_and_audit (translate())  # pylint: disable=broad-except
        return
    import pandora.img_tools as it

    class FakeReader:
        def __init__(self, arr):
            self.arr = arr

        def read(self, *args, **kwargs):  # read(1, window=window) / read(out_dtype=np.float32, window=window)
            a = np.array(self.arr)
            return a.astype(kwargs["out_dtype"]) if "out_dtype" in kwargs else a

    rng = random.Random(1616 + ctx.seed)
    real_open = it.rasterio_open
    n = ctx.n(220, 2500)
    try:
        for k in range(n):
            rows, cols, nb = rng.choice([(1, 1), (2, 3), (3, 2), (4, 5)]), None, rng.choice([1, 1, 2, 3])
            rows, cols = rows
            src = rng.choice(["float32", "uint8", "int16"])
            lo, hi = {"float32": (-3, 4), "uint8": (0, 5), "int16": (-3, 4)}[src]
            im = np.array([[[rng.randrange(lo, hi) for _ in range(cols)] for _ in range(rows)] for _ in range(nb)]).astype(src).astype(np.float32)
            nodata = rng.choice([0, 1, -1, 2.5, float("nan"), float("inf"), float("-inf"), -9999])
            if src == "float32" and rng.random() < 0.6:
                for _ in range(rng.randrange(0, 4)):
                    im[rng.randrange(nb), rng.randrange(rows), rng.randrange(cols)] = rng.choice([np.nan, np.inf, -np.inf])
            mdt = rng.choice([None, "uint8", "int16", "int32", "int64", "uint16"])
            raw = None
            if mdt:
                pool = {"uint8": [0, 0, 1, 2, 128, 255], "int16": [0, 0, 1, -1, -32768, 300], "uint16": [0, 0, 1, 65535, 256],
                        "int32": [0, 0, 1, 65536, 131072, -65536, 65537, -1], "int64": [0, 0, 2, 65536, 1 << 32, -(1 << 16), 1 << 40]}[mdt]
                raw = np.array([[rng.choice(pool) for _ in range(cols)] for _ in range(rows)], dtype=mdt)
            # ---- detection + add_no_data + add_mask, as the tail of create_dataset_from_inputs runs them
            ds = xr.Dataset({"im": (["band_im", "row", "col"], im.copy()) if nb > 1 else (["row", "col"], im[0].copy())},
                            attrs={"valid_pixels": 0, "no_data_mask": 1})
            data = ds["im"].data
            if np.isnan(nodata):
                px = np.where(np.isnan(data))
            elif np.isinf(nodata):
                px = np.where(np.isinf(data))
            else:
                px = np.where(data == nodata)
            it.rasterio_open = lambda *_a, **_k: FakeReader(raw)
            out = it.add_no_data(ds, nodata, px)
            out = it.add_mask(out, "mask.tif" if raw is not None else None, px, cols, rows, None)
            # ---- the evaluator on the same input
            chain = f["tail"]["chain"]
            sel = [p for t, p in chain if (t == "isnan" and np.isnan(nodata)) or (t == "isinf" and np.isinf(nodata)) or t is None][0]
            pred = {"isnan": np.isnan, "isinf": np.isinf, "eq": lambda a: a == np.float32(nodata) if not np.isnan(nodata) else a != a}[sel]
            hit3 = pred(im)
            anyhit = bool(hit3.any())
            t_nd = f["add_no_data"]
            rewrite = anyhit and any((np.isnan(nodata) if t == "isnan" else np.isinf(nodata)) for t in t_nd["tests"])
            want_im = np.where(hit3, np.float32(t_nd["store"]), im) if rewrite else im
            want_attr = t_nd["attr"] if rewrite else nodata
            hit2 = hit3.any(axis=0)
            want_msk = gk.eval_add_mask(f["add_mask"], {"valid_pixels": 0, "no_data_mask": 1}, rows, cols,
                                        None if raw is None else raw.tolist(), hit2.tolist(), anyhit)
            got_im = out["im"].data.reshape(im.shape)
            got_msk = None if "msk" not in out else out["msk"].data.astype(np.int64).tolist()
            got_attr = out.attrs["no_data_img"]
            report.translator_checks += 1
            same_attr = (got_attr == want_attr) or (isinstance(got_attr, float) and np.isnan(got_attr) and np.isnan(want_attr))
            if not np.array_equal(got_im, want_im, equal_nan=True) or got_msk != want_msk or not same_attr:
                status.problem("translator", f"translated add_no_data / add_mask evaluate differently from the real functions: {rows}x{cols}x{nb} "
                               f"{src} image, nodata {nodata}, mask dtype {mdt} (image equal {np.array_equal(got_im, want_im, equal_nan=True)}, "
                               f"msk equal {got_msk == want_msk}, no_data_img equal {same_attr})")
                return
            # ---- add_disparity: [min, max] pair and two-band grid
            if k % 3 == 0:
                ds2 = xr.Dataset({"im": (["row", "col"], im[0].copy())})
                pair = [rng.randrange(-9, 3), rng.randrange(3, 9)]
                grid = np.array([[[rng.randrange(-5, 0) for _ in range(cols)] for _ in range(rows)],
                                 [[rng.randrange(0, 5) for _ in range(cols)] for _ in range(rows)]], dtype=np.float32)
                it.rasterio_open = lambda *_a, **_k: FakeReader(grid)
                o_pair = it.add_disparity(ds2.copy(deep=True), pair, None)["disparity"].data
                o_grid = it.add_disparity(ds2.copy(deep=True), "grid.tif", None)["disparity"].data
                o_none = it.add_disparity(ds2.copy(deep=True), None, None)
                i0, i1 = f["add_disparity"]["pair"]
                want_pair = np.array([np.full((rows, cols), pair[i0]), np.full((rows, cols), pair[i1])])
                report.translator_checks += 1
                if not np.array_equal(o_pair, want_pair) or not np.array_equal(o_grid, grid) or "disparity" in o_none:
                    status.problem("translator", "translated add_disparity evaluates differently from the real function")
                    return
    finally:
        it.rasterio_open = real_open
    report.count("dataset_kernel_cross_check_inputs", n)


def run(ctx, report, status):
    params = source_params(report, status)
    translator_cross_check(report, status, params)
    dataset_kernel_cross_check(ctx, report, status)
    from .. import glue_check

    glue_check.selftest(status)
    glue_check.check_get_window(ctx, report, status)
    report.rule = (
        "window stream: every well-formed ROI with corners in [-3, size+3] and margins 0..2 on one axis (other axis: "
        "inside / at both edges / outside) of a 5x6 (quick) image through the real get_window; dataset stream: random "
         "rasters 1-9 x 1-9, 1-3 bands, uint8/int16/uint16/float32/float64 with NaN/+-inf samples, nodata in {-9999,0,2,3,5/2,-3/4,NaN,+-inf} "
        "planted at borders, int16/uint8 masks with values -3..3, disparity pair/grid/none, classification, segmentation, "
        "ROI (inside, clipped, touching the edge exactly, outside) written with rasterio and read by the real "
        "create_dataset_from_inputs; non-trivial = has nodata pixels, a mask, a disparity or a ROI; distinct by full case"
    )
    for name, case in core.load_corpus(PROP):
        check_case(ctx, report, case, params, "corpus:" + name)
    sizes = [(6, 5)] if not ctx.thorough else [(6, 5), (1, 1), (3, 7)]
    for (w, h) in sizes:
        check_window_batch(ctx, report, window_scope(w, h, -3, 3, 2 if not ctx.thorough else 3), w, h, params)
    report.count("window_cases", report.evaluations)
    for _ in range(ctx.n(600, 6000)):
        check_dataset_case(ctx, report, gen_case(ctx.rng), params, "rnd")
    if ctx.thorough:
        # every ROI of a small scope on one fixed 5x6 two-band raster with mask and NaN nodata
        base = gen_case(core.random.Random(ctx.seed + 7))
        base.update({"rows": 3, "cols": 4, "dtype": "float32", "band_names": ["r", "g"], "nodata": "nan",
                     "bands": [[[core.enc(core.Fraction((b + 2 * r + 3 * c) % 7, 2)) if (r + c + b) % 5 else "nan" for c in range(4)]
                                for r in range(3)] for b in range(2)],
                     "mask": [[(r * c) % 3 for c in range(4)] for r in range(3)], "mask_dtype": "uint8", "mask_key": "given",
                     "disp": [-2, 2], "classif": None, "segm": [[r + c for c in range(4)] for r in range(3)]})
        for cf, cl, rf, rl in itertools.product(range(-2, 6), range(-2, 6), range(-2, 5), range(-2, 5)):
            if cf > cl or rf > rl:
                continue
            for m in ([0, 0, 0, 0], [1, 0, 2, 1]):
                c2 = dict(base)
                c2["roi"] = {"col": {"first": cf, "last": cl}, "row": {"first": rf, "last": rl}, "margins": m}
                check_dataset_case(ctx, report, c2, params, "exh")
        report.exhaustive = True
    shrink_first_unknown(ctx, report, params)


def search(ctx, report, status):
    """Directed search after a broken obligation: the window scope on three image sizes, then a random dataset
    stream, against the implementation with the Lean specification as oracle."""
    params = source_params(report, status)
    sub = core.Report(PROP, ctx.tier, ctx.seed)
    known = core.load_known(PROP)

    def fresh():
        for f in sub.failures:
            if not any(k.get("clause") == f["clause"] and k.get("trigger") == f["trigger"] for k in known):
                return f
        return None

    for (w, h) in [(6, 5), (1, 1), (2, 3)]:
        check_window_batch(ctx, sub, window_scope(w, h, -3, 3, 2), w, h, params)
        if fresh():
            return fresh()
    rng = core.random.Random(ctx.seed + 12345)
    for _ in range(1500):
        check_dataset_case(ctx, sub, gen_case(rng), params, "search")
        if fresh():
            return shrink(ctx, params, fresh())
    return None


def replay(ctx, report, path):
    with open(path, encoding="utf-8") as f:
        data = json.load(f)
    case = data["input"] if "input" in data else data
    status = core.BuildStatus()
    params = source_params(report, status)
    check_case(ctx, report, case, params, "replay")
    for fl in report.failures:
        print("spec failure:", fl["clause"], fl["trigger"], json.dumps(fl["case"])[:600])
    for d in report.disagreements:
        print("disagreement:", json.dumps(d)[:800])
    print("replayed: failures=%d disagreements=%d" % (len(report.failures), len(report.disagreements)))
    # a replay file written by a run names the clause that failed: the verdict is about that clause (the same input
    # may also exhibit a known finding, which is printed above but is not what is being replayed)
    wanted = data.get("clause") if isinstance(data, dict) and "input" in data else None
    if wanted:
        return 1 if any(fl["clause"] == wanted for fl in report.failures) else 0
    return 1 if report.failures else 0
