"""C10 — filters change only valid pixels, to an average of their valid neighbours.

Three kinds of cases, all calling the real filter classes the way `PandoraMachine.filter_run` does (a share of
them through `filter_run` on a real machine object, left and right):
  * median      : exact comparison with the model, Lean specification (`medianCellFailures`) on the implementation's map;
  * bilateral   : the two Gaussian factors come from Pandora's own functions as exact fractions; comparison with the
                  model's exact weighted mean within 1e-5 (float32 storage, float64 arithmetic, exp), Lean specification
                  (`bilateralCellFailures`, same tolerance for `is_weighted_mean`, exact for every other clause);
  * intervals   : median_for_intervals on the two interval-bound bands, with and without regularisation, applied
                  once or twice (bit 11 with `|=`).
Sizes straddle the 100-pixel (median) and 50-pixel (bilateral) blocks; crop-vs-whole comparisons observe block
independence directly.
"""
from __future__ import annotations

import json
from fractions import Fraction

import numpy as np

from .. import core
from ..impl import filters as fl
from ..impl.wire import dec_arr, enc_arr, enc_f

PROP = "C10"
TOL = Fraction(1, 100000)
BIT11 = 2048


def translate():
    from translator import registry

    return registry.generate("Blocks", "Constants", "KernelsFilter", "KernelsIntervals")


_CACHE = {}


def block_desc(name):
    if "blocks" not in _CACHE:
        from translator import gen_blocks

        try:
            _CACHE["blocks"] = gen_blocks.extract()
        except Exception:  # already reported by build_and_audit: fall back to the documented literals
            _CACHE["blocks"] = {
                "median": {"startY": 100, "stepY": 100, "stopYDim": 0, "startX": 100, "stepX": 100, "stopXDim": 1,
                           "beginY": ["half", "", 2], "beginX": ["half", "", 2]},
                "bilateral": {"startY": 50, "stepY": 50, "stopYDim": 0, "startX": 50, "stepX": 50, "stopXDim": 1,
                              "beginY": ["half", "", 2], "beginX": ["half", "", 2]},
            }
    return _CACHE["blocks"][name]


def split_for(name, size):
    d = block_desc(name)
    out = {k: d[k] for k in ("startY", "stepY", "stopYDim", "startX", "stepX", "stopXDim")}
    for k in ("beginY", "beginX"):
        b = d[k]
        out[k] = b[1] if b[0] == "lit" else size // b[2]
    return out


def invalid_mask():
    import pandora.constants as cst

    return int(cst.PANDORA_MSK_PIXEL_INVALID)


# --------------------------------------------------------------------------------------------
# generators
# --------------------------------------------------------------------------------------------
INVALID_BITS = [1, 2, 64, 128, 256, 512]
INFO_BITS = [4, 8, 16, 32, 1024, 2048]
MEDIAN_BOUNDARY_QUICK = [(3, 205), (205, 3), (101, 3), (3, 101), (102, 4), (4, 103), (5, 100), (100, 5)]
MEDIAN_BOUNDARY_THOROUGH = [(101, 103), (201, 5), (5, 301), (100, 100), (104, 7)]
BILATERAL_BOUNDARY_QUICK = [(52, 7), (7, 52), (51, 4), (4, 51), (101, 3), (3, 53), (50, 5), (5, 50)]
BILATERAL_BOUNDARY_THOROUGH = [(53, 55), (101, 21), (21, 103), (50, 50)]


BAND_COUNTER = [0]


def gen_map(rng, shape=None, small=((3, 3), (3, 5), (4, 4), (5, 6), (6, 5), (7, 9), (8, 8), (5, 12))):
    ny, nx = shape or rng.choice(small)
    style = rng.choice(["ints", "ints", "quarters", "flat", "ramp"])
    if style == "ints":
        disp = [[rng.randrange(-6, 7) for _ in range(nx)] for _ in range(ny)]
    elif style == "quarters":
        disp = [[rng.randrange(-16, 17) / 4 for _ in range(nx)] for _ in range(ny)]
    elif style == "flat":
        v = rng.randrange(-3, 4)
        disp = [[v + (1 if rng.random() < 0.1 else 0) for _ in range(nx)] for _ in range(ny)]
    else:
        disp = [[(r + 2 * c) % 7 - 3 for c in range(nx)] for r in range(ny)]
    disp = np.array(disp, dtype=float)
    p_inv = rng.choice([0.0, 0.1, 0.25, 0.45])
    inv = np.array([[rng.random() < p_inv for _ in range(nx)] for _ in range(ny)])
    if rng.random() < 0.4:  # a blob touching a border
        r0, c0 = rng.choice([0, max(0, ny - 2)]), rng.randrange(0, nx)
        inv[r0:r0 + 2, c0:c0 + 3] = True
    if rng.random() < 0.15:
        inv[:, rng.randrange(nx)] = True
    if rng.random() < 0.05:
        inv[:, :] = True
    if max(ny, nx) > 45 and rng.random() < 0.6:
        # a band of invalid pixels long enough to fill a whole processing block (no-data area): blocks made only of
        # invalid pixels are where a "nothing to do here" shortcut would go wrong
        blk = 100 if max(ny, nx) > 100 else 50
        start = rng.choice([0, 0, blk - 5, blk])
        length = blk + rng.choice([5, 10, 20])
        if nx >= ny:
            inv[:, start:start + length] = True
        else:
            inv[start:start + length, :] = True
        BAND_COUNTER[0] += 1
    flags = np.zeros((ny, nx), dtype=int)
    inv_style = rng.choice(["sentinel", "nan", "keeps_value"])
    for r in range(ny):
        for c in range(nx):
            f = 0
            if rng.random() < 0.3:
                f |= rng.choice(INFO_BITS)
            if inv[r, c]:
                f |= rng.choice(INVALID_BITS)
                if rng.random() < 0.2:
                    f |= rng.choice(INVALID_BITS)
                if inv_style == "sentinel":
                    disp[r, c] = -9999
                elif inv_style == "nan":
                    disp[r, c] = np.nan
            flags[r, c] = f
    nb = rng.choice([0, 0, 1, 2]) if ny * nx < 400 else 0
    conf = indicators = None
    if nb:
        conf = [[[rng.choice([0.0, 0.5, 1.0, float("nan")]) for _ in range(nb)] for _ in range(nx)] for _ in range(ny)]
        indicators = ["confidence_from_ambiguity", "confidence_from_left_right_consistency"][:nb]
    return ny, nx, disp, flags, conf, indicators


def gen_median(rng, shape=None):
    ny, nx, disp, flags, conf, indicators = gen_map(rng, shape)
    fs = rng.choice([f for f in (1, 3, 3, 3, 5, 5, 7) if f <= min(ny, nx)])
    return {"kind": "median", "ny": ny, "nx": nx, "fs": fs, "dtype": rng.choice(["float32", "float32", "float64"]),
            "disp": enc_arr(disp), "flags": flags.tolist(),
            "conf": None if conf is None else enc_arr(np.array(conf)), "indicators": indicators,
            "via_machine": ny * nx < 400 and rng.random() < 0.3, "repeat": rng.choice([1, 1, 2])}


SIGMA_SPACE = [0.25, 0.5, 0.7, 1.0, 1.0, 1.5, 2.0, 6.0]  # windows 1, 2, 3, 4, 4, 5, 7, 19 (before min with the image)
SIGMA_COLOR = [0.5, 2.0, 2.0, 10.0]


def gen_bilateral(rng, shape=None):
    ny, nx, disp, flags, conf, indicators = gen_map(rng, shape, small=((3, 3), (4, 4), (4, 6), (5, 5), (6, 7), (7, 6), (8, 9), (20, 21)))
    return {"kind": "bilateral", "ny": ny, "nx": nx, "dtype": rng.choice(["float32", "float32", "float64"]),
            "sigma_space": rng.choice(SIGMA_SPACE),
            "sigma_color": rng.choice(SIGMA_COLOR), "disp": enc_arr(disp), "flags": flags.tolist(),
            "conf": None if conf is None else enc_arr(np.array(conf)), "indicators": indicators,
            "via_machine": ny * nx < 400 and rng.random() < 0.3}


def gen_intervals(rng, shape=None):
    ny, nx, disp, flags, _, _ = gen_map(rng, shape, small=((3, 3), (4, 5), (5, 5), (6, 8), (7, 7)))
    fs = rng.choice([f for f in (1, 3, 3, 5) if f <= min(ny, nx)])
    suffix = rng.choice(["", "", "intervals", "a.b"])
    amb_suffix = rng.choice(["", "amb"])
    lo = np.array([[rng.randrange(-8, 0) for _ in range(nx)] for _ in range(ny)], dtype=float)
    hi = lo + np.array([[rng.randrange(0, 9) for _ in range(nx)] for _ in range(ny)], dtype=float)
    # interval bounds are NaN where the cost volume had no computable cost: some (not all) invalid pixels
    for r in range(ny):
        for c in range(nx):
            if flags[r][c] & invalid_mask() and rng.random() < 0.6:
                lo[r, c] = hi[r, c] = np.nan
    amb = np.array([[rng.choice([0.0, 0.25, 0.5, 0.75, 1.0]) for _ in range(nx)] for _ in range(ny)])
    other = np.array([[rng.choice([0.0, 1.0, 2.5]) for _ in range(nx)] for _ in range(ny)])
    return {"kind": "intervals", "ny": ny, "nx": nx, "fs": fs, "disp": enc_arr(disp), "flags": flags.tolist(),
            "inf": enc_arr(lo), "sup": enc_arr(hi), "amb": enc_arr(amb), "other": enc_arr(other),
            "suffix": suffix, "amb_suffix": amb_suffix, "regularization": rng.random() < 0.5,
            "ambiguity_threshold": rng.choice([0.3, 0.6, 0.9]), "ambiguity_kernel_size": rng.choice([1, 3, 5]),
            "vertical_depth": rng.choice([0, 1, 2]), "quantile_regularization": rng.choice([1.0, 0.9, 0.5]),
            "repeat": rng.choice([1, 2, 2])}


# --------------------------------------------------------------------------------------------
# checks
# --------------------------------------------------------------------------------------------
def pos_tag(r, c, block):
    return "block0" if r < block and c < block else "beyond_block0"


def report_cell_failures(report, case, res, kind, block, rename=None, extra=""):
    for f in res["failures"][:3]:
        clause = f["clauses"][0]
        detail = f"clauses false at this pixel: {f['clauses']}; {extra}"
        if rename:
            detail = f"band cell violates {f['clauses']}; {extra}"
            clause = rename
        report.fail(clause, f"{kind}_{f['clauses'][0]}_{pos_tag(f['r'], f['c'], block)}", case,
                    {k: f[k] for k in f if k != "clauses"}, detail)


def count_stats(report, st, kind):
    for k, v in st.items():
        report.count(f"{kind}_cells_{k}", v)
    if st["interior"]:
        report.hit("is_median" if kind != "bilateral" else "is_weighted_mean", st["interior"])
        report.hit("between_window_min_max", st["interior"])
    if st["edge"]:
        report.hit("edge_untouched", st["edge"])
    if st["invalid"]:
        report.hit("invalid_disp_unchanged", st["invalid"])


def same_arrays(a, b):
    return a.shape == b.shape and np.array_equal(a, b, equal_nan=True)


def frame_checks(report, case, before, after, kind, bands_may_change=()):
    """mask unchanged (Lean flagSpec through the driver is used for intervals; here the one-liner) and bands untouched"""
    report.hit("mask_unchanged")
    if not same_arrays(before["validity_mask"], after["validity_mask"]) or before["mask_dtype"] != after["mask_dtype"]:
        bad = np.argwhere(before["validity_mask"] != after["validity_mask"])
        r, c = (int(bad[0][0]), int(bad[0][1])) if len(bad) else (0, 0)
        report.fail("mask_unchanged", f"{kind}_mask", case,
                    {"pixel": [r, c], "before": int(before["validity_mask"][r, c]), "after": int(after["validity_mask"][r, c])})
    if "confidence_measure" in before:
        if "confidence_measure" not in after or after["indicator"] != before["indicator"]:
            report.disagree(f"{kind}.bands", case, "bands removed or renamed", "model: bands are not written")
        else:
            for i, name in enumerate(before["indicator"]):
                if name in bands_may_change:
                    continue
                if not same_arrays(before["confidence_measure"][:, :, i], after["confidence_measure"][:, :, i]):
                    report.disagree(f"{kind}.band[{name}]", case, "changed", "model: this band is not written")


def build_ds(case, disp, flags):
    conf = None if case.get("conf") is None else dec_arr(case["conf"])
    return fl.make_disp(disp, flags, conf, case.get("indicators"), dtype=case.get("dtype", "float32"))


def crop_spans(ny, nx, block, margin):
    spans = []
    for b in range(block, ny + block, block):
        lo, hi = max(0, b - margin - 3), min(ny, b + margin + 3)
        if hi - lo >= 2 * margin + 1 and lo < ny:
            spans.append((lo, hi, 0, nx))
    for b in range(block, nx + block, block):
        lo, hi = max(0, b - margin - 3), min(nx, b + margin + 3)
        if hi - lo >= 2 * margin + 1 and lo < nx:
            spans.append((0, ny, lo, hi))
    return spans[:6]


def crop_independent(report, case, cfg, disp, flags, whole_out, block, before, after_m, kind):
    """the filter applied to a crop around a block boundary gives, away from the crop's own edges, what the whole
    image gives (before/after_m: the two radii of the window)"""
    ny, nx = disp.shape
    if ny <= block - before and nx <= block - before:
        return
    for (r0, r1, c0, c1) in crop_spans(ny, nx, block, max(before, after_m)):
        sub = fl.make_disp(disp[r0:r1, c0:c1], flags[r0:r1, c0:c1])
        if kind == "bilateral":
            # the window of the crop must be the window of the whole image
            w = before + after_m + 1
            if min(r1 - r0, c1 - c0) < w or min(ny, nx) < w:
                continue
        try:
            fl.run_filter(sub, cfg)
        except Exception:  # pylint: disable=broad-except
            continue
        got = sub["disparity_map"].data
        a0 = before if r0 > 0 else 0
        a1 = (r1 - r0) - (after_m if r1 < ny else 0)
        b0 = before if c0 > 0 else 0
        b1 = (c1 - c0) - (after_m if c1 < nx else 0)
        if a1 <= a0 or b1 <= b0:
            continue
        report.hit("block_independent")
        x = got[a0:a1, b0:b1]
        y = whole_out[r0 + a0:r0 + a1, c0 + b0:c0 + b1]
        ok = same_arrays(x, y) if kind != "bilateral" else bool(np.all((np.isnan(x) & np.isnan(y)) | (np.abs(x - y) <= 1e-5 * np.maximum(1, np.abs(y)))))
        if not ok:
            report.fail("block_independent", f"{kind}_crop_differs", case, {"crop": [r0, r1, c0, c1]},
                        "the filtered values of a crop around a block boundary differ from the same pixels of the whole image")


def run_median(ctx, report, case, compare_model=True):
    ny, nx, fs = case["ny"], case["nx"], case["fs"]
    disp = dec_arr(case["disp"])
    flags = np.array(case["flags"])
    cfg = {"filter_method": "median", "filter_size": fs}
    ds = build_ds(case, disp, flags)
    right = build_ds(case, disp[:, ::-1].copy(), flags[:, ::-1].copy()) if case.get("via_machine") else None
    stats = None
    for step in range(case.get("repeat", 1)):
        before = fl.observe(ds)
        try:
            fl.run_filter(ds, cfg, via_machine=bool(case.get("via_machine")), right=right)
        except Exception as exc:  # pylint: disable=broad-except
            report.fail("is_median", f"median_raises_{type(exc).__name__}_{pos_tag(ny - 1, nx - 1, 100)}", case,
                        {"exception": f"{type(exc).__name__}: {exc}"}, "the filter step raised")
            return {"interior": 1}
        after = fl.observe(ds)
        orig_j, out_j = enc_arr(before["disparity_map"]), enc_arr(after["disparity_map"])
        fl_j = before["validity_mask"].astype(int).tolist()
        if compare_model:
            model = ctx.lean.call("C10.median", ny=ny, nx=nx, fs=fs, invalid_mask=invalid_mask(), split=split_for("median", fs),
                                  disp=orig_j, flags=fl_j)
            if model["disp"] != out_j:
                bad = [(r, c) for r in range(ny) for c in range(nx) if model["disp"][r][c] != out_j[r][c]][:5]
                report.disagree("median.disparity_map", case, [[r, c, out_j[r][c]] for r, c in bad], [[r, c, model["disp"][r][c]] for r, c in bad])
        res = ctx.lean.call("C10.spec_median", ny=ny, nx=nx, fs=fs, kind="disp", invalid_mask=invalid_mask(), flags=fl_j,
                            orig=orig_j, out=out_j)
        report_cell_failures(report, case, res, "median", 100, extra=f"filter application {step + 1}")
        stats = res["stats"]
        count_stats(report, stats, "median")
        frame_checks(report, case, before, after, "median")
        if step == 0:
            crop_independent(report, case, cfg, before["disparity_map"].astype(float), before["validity_mask"].astype(int),
                             after["disparity_map"], 100, fs // 2, fs // 2, "median")
    if right is not None:  # the right map is the mirrored left one: its result must be the mirror
        report.hit("block_independent")
        if not same_arrays(right["disparity_map"].data[:, ::-1], ds["disparity_map"].data):
            report.fail("is_median", "median_right_side_differs", case, None, "filter_run: the right map (mirror of the left) is not filtered like the left")
    return stats


def within_tol(a, b):
    """a: implementation wire cell, b: model wire cell"""
    if a == "nan" or b == "nan":
        return a == b
    fa, fb = Fraction(a), Fraction(b)
    return abs(fa - fb) <= TOL * max(1, abs(fb))


def run_bilateral(ctx, report, case, compare_model=True):
    ny, nx = case["ny"], case["nx"]
    ss, sc = float(case["sigma_space"]), float(case["sigma_color"])
    disp = dec_arr(case["disp"])
    flags = np.array(case["flags"])
    cfg = {"filter_method": "bilateral", "sigma_space": ss, "sigma_color": sc}
    ds = build_ds(case, disp, flags)
    before = fl.observe(ds)
    try:
        fl.run_filter(ds, cfg, via_machine=bool(case.get("via_machine")))
    except Exception as exc:  # pylint: disable=broad-except
        report.fail("is_weighted_mean", f"bilateral_raises_{type(exc).__name__}_{pos_tag(ny - 1, nx - 1, 50)}", case,
                    {"exception": f"{type(exc).__name__}: {exc}"}, "the filter step raised")
        return {"interior": 1}
    after = fl.observe(ds)
    win = ctx.lean.call("C10.win", ny=ny, nx=nx, sigma_space=enc_f(ss))
    if win != min(ny, nx, int(3 * ss + 1)):
        report.notes.append(f"sigma_space {ss}: exact window {win} differs from the float formula; case skipped")
        return {"interior": 0}
    valid_vals = before["disparity_map"][(before["validity_mask"] & invalid_mask()) == 0]
    spatial, diffs, rngw = fl.gaussian_tables(ss, sc, win, valid_vals)
    # the two factors are Gaussians centred on the pixel (sampled in Python: exp is outside Lean)
    report.hit("is_weighted_mean")
    aa = np.arange(win)[:, None] - win // 2
    bb = np.arange(win)[None, :] - win // 2
    want_sp = np.exp(-(aa**2 + bb**2) / (2 * ss * ss)) / (ss * np.sqrt(2 * np.pi))
    want_rg = np.exp(-((diffs / sc) ** 2) / 2) / (sc * np.sqrt(2 * np.pi))
    if not np.allclose(spatial, want_sp, rtol=1e-9, atol=1e-300) or not np.allclose(rngw, want_rg, rtol=1e-5, atol=1e-30):
        report.fail("is_weighted_mean", "bilateral_kernel_not_gaussian", case,
                    {"spatial": spatial.tolist()[:3], "expected": want_sp.tolist()[:3]},
                    "gauss_spatial_kernel / normalized_gaussian are not the Gaussians of the distance to the pixel / of the disparity difference")
    payload = {
        "ny": ny, "nx": nx, "sigma_space": enc_f(ss), "invalid_mask": invalid_mask(),
        "spatial": enc_arr(spatial), "range": [[enc_f(d), enc_f(w)] for d, w in zip(diffs.tolist(), rngw.tolist())],
        "flags": before["validity_mask"].astype(int).tolist(),
    }
    orig_j, out_j = enc_arr(before["disparity_map"]), enc_arr(after["disparity_map"])
    if compare_model:
        model = ctx.lean.call("C10.bilateral", split=split_for("bilateral", win), disp=orig_j, **payload)
        bad = [(r, c) for r in range(ny) for c in range(nx) if not within_tol(out_j[r][c], model["disp"][r][c])][:5]
        if bad:
            report.disagree("bilateral.disparity_map", case, [[r, c, out_j[r][c]] for r, c in bad], [[r, c, model["disp"][r][c]] for r, c in bad])
    res = ctx.lean.call("C10.spec_bilateral", tol=f"{TOL.numerator}/{TOL.denominator}", orig=orig_j, out=out_j, **payload)
    report_cell_failures(report, case, res, "bilateral", 50, extra=f"window {win}")
    count_stats(report, res["stats"], "bilateral")
    report.count(f"bilateral_window_{'even' if win % 2 == 0 else 'odd'}")
    frame_checks(report, case, before, after, "bilateral")
    crop_independent(report, case, cfg, before["disparity_map"].astype(float), before["validity_mask"].astype(int),
                     after["disparity_map"], 50, win // 2, win - 1 - win // 2, "bilateral")
    # the weights are those of the sigma_space of THIS call: an object that filtered before with another sigma_space giving
    # the same window width (truncation of 3 sigma + 1, or a map smaller than the window) must not remember it
    if ny * nx <= 400:
        first = None
        for cand in (ss + 0.2, ss - 0.2, ss + 0.3, ss * 1.5, ss + 2.0):
            if cand > 0 and cand != ss and min(ny, nx, int(3 * cand + 1)) == win:
                first = cand
                break
        if first is not None:
            reused, fresh = fl.bilateral_reuse(before["disparity_map"], before["validity_mask"], first, ss, sc, invalid_mask())
            report.hit("is_weighted_mean:object_reused")
            if not np.array_equal(reused, fresh, equal_nan=True):
                n = int(np.sum(~((reused == fresh) | (np.isnan(reused) & np.isnan(fresh)))))
                report.fail("is_weighted_mean", "filter_object_reused_with_another_sigma_space", dict(case, first_sigma_space=first),
                            {"differing_pixels": n},
                            f"filter_bilateral(sigma_space={ss}) on an object that first filtered with sigma_space={first} differs from a fresh object on {n} pixels")
    return res["stats"]


def band_names(case):
    s, a = case["suffix"], case["amb_suffix"]
    inf = "confidence_from_interval_bounds_inf" + ("." + s if s else "")
    sup = "confidence_from_interval_bounds_sup" + ("." + s if s else "")
    amb = "confidence_from_ambiguity" + ("." + a if a else "")
    return inf, sup, amb, "confidence_from_left_right_consistency"


def run_intervals(ctx, report, case, compare_model=True):
    ny, nx, fs = case["ny"], case["nx"], case["fs"]
    disp = dec_arr(case["disp"])
    flags = np.array(case["flags"])
    n_inf, n_sup, n_amb, n_other = band_names(case)
    conf = np.stack([dec_arr(case["other"]), dec_arr(case["inf"]), dec_arr(case["amb"]), dec_arr(case["sup"])], axis=2)
    names = [n_other, n_inf, n_amb, n_sup]
    ds = fl.make_disp(disp, flags, conf, names)
    cfg = {"filter_method": "median_for_intervals", "filter_size": fs, "interval_indicator": case["suffix"],
           "regularization": bool(case["regularization"]), "ambiguity_indicator": case["amb_suffix"],
           "ambiguity_threshold": case["ambiguity_threshold"], "ambiguity_kernel_size": case["ambiguity_kernel_size"],
           "vertical_depth": case["vertical_depth"], "quantile_regularization": case["quantile_regularization"]}
    stats = {"interior": 0}
    for step in range(case.get("repeat", 1)):
        before = fl.observe(ds)
        try:
            fl.run_filter(ds, cfg)
        except Exception as exc:  # pylint: disable=broad-except
            report.fail("intervals_same_median", f"intervals_raises_{type(exc).__name__}", case,
                        {"exception": f"{type(exc).__name__}: {exc}"}, "the filter step raised")
            return {"interior": 1}
        after = fl.observe(ds)
        tag = f"application {step + 1}, regularization={cfg['regularization']}"
        # the disparity and the other bands are not the subject of this filter
        report.hit("intervals_same_median")
        if not same_arrays(before["disparity_map"], after["disparity_map"]):
            report.fail("intervals_same_median", "intervals_disparity_changed", case, None, "median_for_intervals changed the disparity map; " + tag)
        idx = {n: i for i, n in enumerate(before["indicator"])}
        if after.get("indicator") != before["indicator"]:
            report.fail("intervals_same_median", "intervals_bands_renamed", case, {"after": after.get("indicator")}, tag)
            return stats
        for n in (n_other, n_amb):
            if not same_arrays(before["confidence_measure"][:, :, idx[n]], after["confidence_measure"][:, :, idx[n]]):
                report.fail("intervals_same_median", "intervals_other_band_changed", case, {"band": n}, tag)
        model_bands = {}
        for n in (n_inf, n_sup):
            b_j = enc_arr(before["confidence_measure"][:, :, idx[n]])
            model_bands[n] = ctx.lean.call("C10.median_band", ny=ny, nx=nx, fs=fs, split=split_for("median", fs), band=b_j)["band"]
        fl_j = before["validity_mask"].astype(int).tolist()
        out_mask = after["validity_mask"].astype(int).tolist()
        if not cfg["regularization"]:
            for n in (n_inf, n_sup):
                b_j = enc_arr(before["confidence_measure"][:, :, idx[n]])
                o_j = enc_arr(after["confidence_measure"][:, :, idx[n]])
                if compare_model and model_bands[n] != o_j:
                    report.disagree(f"intervals.band[{n}]", case, "differs", "model median_filter of the band")
                res = ctx.lean.call("C10.spec_median", ny=ny, nx=nx, fs=fs, kind="band", orig=b_j, out=o_j)
                report_cell_failures(report, case, res, "intervals", 100, rename="intervals_same_median", extra=f"band {n}; {tag}")
                stats = res["stats"]
                report.hit("intervals_same_median", stats["interior"])
                for k, v in stats.items():
                    report.count(f"intervals_cells_{k}", v)
            res = ctx.lean.call("C10.spec_flags", ny=ny, nx=nx, bit=BIT11, bit11_allowed=False, flags=fl_j, out=out_mask)
            report.hit("mask_unchanged")
            for f in res["failures"][:2]:
                report.fail("mask_unchanged", "intervals_no_regularization_mask", case, f, tag)
        else:
            res = ctx.lean.call("C10.spec_flags", ny=ny, nx=nx, bit=BIT11, bit11_allowed=True, flags=fl_j, out=out_mask)
            report.hit("bit11_only")
            for f in res["failures"][:2]:
                trig = "intervals_bit11_already_set" if f["flag"] & BIT11 else "intervals_bit11_clear"
                report.fail("bit11_only", trig, case, f, "the validity mask changed otherwise than by raising bit 11; " + tag)
            if compare_model:
                inf_r, sup_r, reg = fl.regularization(dec_arr(model_bands[n_inf]), dec_arr(model_bands[n_sup]),
                                                      before["confidence_measure"][:, :, idx[n_amb]], cfg)
                mflags = ctx.lean.call("C10.flags", ny=ny, nx=nx, bit=BIT11, flags=fl_j, reg=np.array(reg, dtype=bool).tolist())["flags"]
                report.count("intervals_regularized_pixels", int(np.sum(reg)))
                if mflags != out_mask:
                    report.disagree("intervals.validity_mask", case, out_mask, mflags)
                for n, want in ((n_inf, inf_r), (n_sup, sup_r)):
                    if not same_arrays(np.array(want, dtype=np.float32), after["confidence_measure"][:, :, idx[n]]):
                        report.disagree(f"intervals.regularized_band[{n}]", case, "differs",
                                        "interval_regularization(model median of the bands)")
                # the whole step in the composed model (Model/FilterIntervals.lean: C10's filter/flag model with C12's
                # interval_regularization model as the producer of the bands *and* of mask_regularization)
                compare_step(ctx, report, case, cfg, before, after, idx, (n_inf, n_sup, n_amb), reg, fl_j, out_mask, 0, tag)
                if step == 0 and ny >= 3 and nx >= 3 and ny * nx <= 400:
                    # the same step on a dataset whose offset_row_col is 1: mask_border after the |=
                    ds1 = fl.make_disp(before["disparity_map"], before["validity_mask"], before["confidence_measure"], names)
                    ds1.attrs["offset_row_col"] = 1
                    b1 = fl.observe(ds1)
                    try:
                        fl.run_filter(ds1, cfg)
                    except Exception as exc:  # pylint: disable=broad-except
                        report.fail("bit11_only", f"intervals_offset_raises_{type(exc).__name__}", case,
                                    {"exception": f"{type(exc).__name__}: {exc}"}, "the filter step raised with offset_row_col = 1")
                    else:
                        a1 = fl.observe(ds1)
                        compare_step(ctx, report, case, cfg, b1, a1, idx, (n_inf, n_sup, n_amb), None,
                                     b1["validity_mask"].astype(int).tolist(), a1["validity_mask"].astype(int).tolist(), 1,
                                     tag + ", offset_row_col=1")
    return stats


def compare_step(ctx, report, case, cfg, before, after, idx, bands, reg, fl_j, out_mask, offset, tag):
    """model of the whole regularising step vs the implementation: mask_regularization (when observed), validity mask, and —
    where the quantile arithmetic is exact in floating point (quantile 1 or 0.5 on halves) — the two final bands"""
    n_inf, n_sup, n_amb = bands
    ny, nx, fs = case["ny"], case["nx"], case["fs"]
    q = float(cfg["quantile_regularization"])
    res = ctx.lean.call("C10.intervals_step", ny=ny, nx=nx, split=split_for("median", fs), bit=BIT11, offset=offset, fs=fs,
                        regularization=True, threshold=core.enc(Fraction(float(cfg["ambiguity_threshold"]))),
                        kernel=int(cfg["ambiguity_kernel_size"]), depth=int(cfg["vertical_depth"]), quantile=core.enc(Fraction(q)),
                        inf=enc_arr(before["confidence_measure"][:, :, idx[n_inf]]),
                        sup=enc_arr(before["confidence_measure"][:, :, idx[n_sup]]),
                        amb=enc_arr(before["confidence_measure"][:, :, idx[n_amb]]), flags=fl_j)
    report.count("intervals_step_model_compared" + ("_offset" if offset else ""))
    if reg is not None and res["reg"] != np.array(reg, dtype=bool).tolist():
        report.disagree("intervals.mask_regularization", case, np.array(reg, dtype=int).tolist(), res["reg"])
    if res["flags"] != out_mask:
        report.disagree("intervals.step_validity_mask" + ("_offset" if offset else ""), case, out_mask, res["flags"])
    if q in (1.0, 0.5):
        for n, got in ((n_inf, res["inf"]), (n_sup, res["sup"])):
            if got != enc_arr(after["confidence_measure"][:, :, idx[n]]):
                report.disagree(f"intervals.step_band[{n}]", case, enc_arr(after["confidence_measure"][:, :, idx[n]]), got)
        report.count("intervals_step_bands_compared")


def gen_exhaustive_tiles(start, count):
    """3x3 maps over {invalid, 0, 1} (tile number t in base 3), laid side by side with an invalid gutter column:
    the centre pixel of every tile sees exactly its own tile (filter_size 3)"""
    ny, nx = 3, 4 * count
    disp = np.zeros((ny, nx))
    flags = np.zeros((ny, nx), dtype=int)
    for i in range(count):
        t = start + i
        for k in range(9):
            v = (t // 3**k) % 3
            r, c = k // 3, 4 * i + k % 3
            if v == 0:
                flags[r, c] = 64
                disp[r, c] = -9999
            else:
                disp[r, c] = v - 1
        flags[:, 4 * i + 3] = 1
        disp[:, 4 * i + 3] = -9999
    return {"kind": "median", "ny": ny, "nx": nx, "fs": 3, "disp": enc_arr(disp), "flags": flags.tolist(),
            "conf": None, "indicators": None, "via_machine": False, "repeat": 1}


def _check_case(ctx, report, case, compare_model=True):
    if case["kind"] == "median":
        st = run_median(ctx, report, case, compare_model)
    elif case["kind"] == "bilateral":
        st = run_bilateral(ctx, report, case, compare_model)
    else:
        st = run_intervals(ctx, report, case, compare_model)
    key = json.dumps(case, sort_keys=True)
    sample = {"kind": case["kind"], "shape": [case["ny"], case["nx"]],
              "param": case.get("fs", case.get("sigma_space")), "stats": st}
    report.case(key=key, nontrivial=bool(st and st.get("interior", 0) > 0), sample=sample)


def check_case(ctx, report, case, compare_model=True, shrink_fail=True):
    n0 = len(report.failures)
    _check_case(ctx, report, case, compare_model)
    if shrink_fail and len(report.failures) > n0:
        report.failures[n0] = shrink(ctx, report.failures[n0])


def shrink(ctx, failure):
    """reduce a failing median/bilateral case to a small crop around the failing pixel when the failure survives"""
    case = failure["case"]
    impl = failure.get("impl")
    if case.get("kind") not in ("median", "bilateral") or not isinstance(impl, dict) or "r" not in impl:
        return failure
    r, c = impl["r"], impl["c"]
    for half in (3, 6, 12):
        r0, r1 = max(0, r - half), min(case["ny"], r + half + 1)
        c0, c1 = max(0, c - half), min(case["nx"], c + half + 1)
        if (r1 - r0, c1 - c0) == (case["ny"], case["nx"]):
            break
        small = dict(case)
        small["ny"], small["nx"] = r1 - r0, c1 - c0
        for k in ("disp", "flags", "conf"):
            if case.get(k) is not None:
                small[k] = [row[c0:c1] for row in case[k][r0:r1]]
        if case["kind"] == "median" and case["fs"] > min(small["ny"], small["nx"]):
            continue
        small["via_machine"] = False
        sub = core.Report(PROP, ctx.tier, ctx.seed)
        try:
            check_case(ctx, sub, small, compare_model=False, shrink_fail=False)
        except Exception:  # pylint: disable=broad-except
            continue
        same = [f for f in sub.failures if f["clause"] == failure["clause"]]
        if same:
            same[0]["trigger"] = failure["trigger"]
            return same[0]
    return failure


def translator_cross_check(report, status):
    from translator import gen_blocks, gen_constants

    try:
        gen = gen_blocks.extract()
        consts = gen_constants.extract()
    except Exception:  # already reported by build_and_audit
        return
    live = fl.live_literals()
    import pandora.constants as cst

    checks = [
        ("median chunk_size", (gen["median"]["startY"], gen["median"]["stepY"], gen["median"]["startX"], gen["median"]["stepX"]), (live["median"],) * 4),
        ("bilateral chunk_size", (gen["bilateral"]["startY"], gen["bilateral"]["stepY"], gen["bilateral"]["startX"], gen["bilateral"]["stepX"]), (live["bilateral"],) * 4),
        ("bilateral window formula", (gen["bilateral"].get("window", {}).get("k1"), gen["bilateral"].get("window", {}).get("k2")), live["window"]),
        ("PANDORA_MSK_PIXEL_INVALID", consts.get("PANDORA_MSK_PIXEL_INVALID"), int(cst.PANDORA_MSK_PIXEL_INVALID)),
        ("PANDORA_MSK_PIXEL_INTERVAL_REGULARIZED", consts.get("PANDORA_MSK_PIXEL_INTERVAL_REGULARIZED"), int(cst.PANDORA_MSK_PIXEL_INTERVAL_REGULARIZED)),
    ]
    for what, a, b in checks:
        report.translator_checks += 1
        if a != b:
            status.problem("translator", f"{what}: translator read {a}, live object/source has {b}")


def _exact(a):
    """numpy float array -> nested lists of Fractions / nan (what translator/pyarr.py's evaluator works on)"""
    from translator import pyarr

    return [[pyarr.NAN if np.isnan(v) else (float(v) if np.isinf(v) else Fraction(float(v))) for v in row] for row in np.asarray(a, dtype=float)]


def _same_cells(a, b):
    from translator import pyarr

    for ra, rb in zip(a, b):
        for x, y in zip(ra, rb):
            if pyarr.is_nan(x) != pyarr.is_nan(y) or (not pyarr.is_nan(x) and x != y):
                return False
    return len(a) == len(b)


KERNEL_SHAPES = [(103, 3), (3, 104), (105, 5), (4, 4), (5, 7), (6, 6), (3, 3), (8, 5)]


def kernel_cross_check(ctx, report, status):
    """T15: the real `MedianFilter.median_filter` / `filter_disparity` against the translator's exact reading of their
    source (`pyarr.evaluate` on the statement list `Generated/KernelsFilter.lean` is printed from; Lean's own reading
    of that text is checked at build time by the generated `example`s).  Compared: the returned array, and the content
    of the INPUT array after the call (aliasing)."""
    from translator import gen_blocks, gen_constants, gen_kernels_filter, pyarr
    from pandora import filter as flt

    try:
        fns = gen_kernels_filter.functions()
        t8 = gen_blocks.extract()
        consts = {k: v for k, v in gen_constants.extract().items() if isinstance(v, int)}
    except Exception:  # already reported by build_and_audit (translate())  # pylint: disable=broad-except
        return
    import random
    import warnings

    from translator import pyarr_selftest

    for what in pyarr_selftest.refused_problems():  # constructs outside the subset must be refused, never guessed
        status.problem("translator", f"pyarr self-test: {what}")
    for what in pyarr_selftest.python_problems(ctx.seed):  # accepted programs: CPython vs the evaluator, aliasing included
        status.problem("translator", f"pyarr self-test: {what}")
    for what in pyarr_selftest.block_problems(ctx.seed):  # accepted programs WITH a block loop (private / aliased output)
        status.problem("translator", f"pyarr self-test: {what}")
    report.translator_checks += len(pyarr_selftest.REFUSED) + len(pyarr_selftest.ACCEPTED) + len(pyarr_selftest.BLOCK_PROGRAMS)
    rng = random.Random(4242 + ctx.seed)
    shapes = KERNEL_SHAPES + [None] * ctx.n(24, 200)
    for shape in shapes:
        ny, nx, disp, flags, _, _ = gen_map(rng, shape)
        fs = rng.choice([f for f in ((3, 5) if max(ny, nx) > 100 else (1, 3, 3, 5, 7)) if f <= min(ny, nx)])
        dtype = rng.choice([np.float32, np.float64])
        f = flt.AbstractFilter(cfg={"filter_method": "median", "filter_size": fs}, image_shape=(ny, nx), step=1)
        # --- median_filter(data): result and input afterwards
        data = np.array(disp, dtype=dtype)
        data[rng.randrange(ny), rng.randrange(nx)] = np.nan
        st = pyarr.PStore([_exact(data)])
        k = pyarr.evaluate(fns["medianFilter"], st, ny, nx, {"data": 0}, nats={"filter_size": fs}, t8=t8)
        with warnings.catch_warnings():
            warnings.simplefilter("ignore")
            real = f.median_filter(data)
        report.translator_checks += 1
        if not _same_cells(_exact(real), st.arr[k]) or not _same_cells(_exact(data), st.arr[0]):
            status.problem("translator", f"translated median_filter evaluates differently from the real function on a {ny}x{nx} map, "
                           f"filter_size {fs} (result equal: {_same_cells(_exact(real), st.arr[k])}, input afterwards equal: "
                           f"{_same_cells(_exact(data), st.arr[0])})")
            return
        # --- filter_disparity(disp): the map afterwards
        ds = fl.make_disp(np.array(disp, dtype=dtype), flags, dtype=np.dtype(dtype).name)
        st = pyarr.PStore([_exact(ds["disparity_map"].data)])
        pyarr.evaluate(fns["filterDisparityMedian"], st, ny, nx, {"disparity_map": 0}, ints={"validity_mask": flags.tolist()},
                       nats={"filter_size": fs}, consts=consts, t8=t8)
        with warnings.catch_warnings():
            warnings.simplefilter("ignore")
            f.filter_disparity(ds)
        report.translator_checks += 1
        if not _same_cells(_exact(ds["disparity_map"].data), st.arr[0]):
            status.problem("translator", f"translated MedianFilter.filter_disparity evaluates differently from the real function on a "
                           f"{ny}x{nx} map, filter_size {fs}")
            return
    report.count("kernel_cross_check_maps", len(shapes))
    bilateral_kernel_cross_check(ctx, report, status, rng, t8, consts)


BIL_KERNEL_SHAPES = [(53, 4), (4, 54), (7, 7), (5, 6), (4, 4), (6, 9), (3, 3)]


def bilateral_kernel_cross_check(ctx, report, status, rng, t8, consts):
    """T15, bilateral: the real `filter_bilateral` (result and input afterwards) and `BilateralFilter.filter_disparity` against
    the evaluator of the translated statement lists, the two Gaussians being Pandora's own functions plugged in where the
    generated definitions have their uninterpreted parameters (float64 maps, relative tolerance 1e-9; NaN / inf must agree)."""
    import math
    import warnings

    from translator import gen_kernels_filter, pyarr
    from pandora import filter as flt

    try:
        _, bil = gen_kernels_filter.bilateral_functions()
    except Exception:  # already reported by build_and_audit (translate())  # pylint: disable=broad-except
        return

    def cells(a):
        return [[float(v) for v in row] for row in np.asarray(a, dtype=np.float64)]

    def close(a, b):
        for ra, rb in zip(a, b):
            for x, y in zip(ra, rb):
                if math.isnan(x) or math.isnan(y) or math.isinf(x) or math.isinf(y):
                    if not ((math.isnan(x) and math.isnan(y)) or x == y):
                        return False
                elif abs(x - y) > 1e-9 * max(1.0, abs(y)):
                    return False
        return len(a) == len(b)

    shapes = BIL_KERNEL_SHAPES + [None] * ctx.n(14, 120)
    for shape in shapes:
        ny, nx, disp, flags, _, _ = gen_map(rng, shape, small=((3, 3), (4, 4), (4, 6), (5, 5), (6, 7), (7, 6), (8, 9)))
        ss = rng.choice([0.5, 0.7, 1.0, 1.5] if max(ny, nx) > 50 else SIGMA_SPACE)
        sc = rng.choice(SIGMA_COLOR)
        f = flt.AbstractFilter(cfg={"filter_method": "bilateral", "sigma_space": ss, "sigma_color": sc}, image_shape=(ny, nx), step=1)
        ufuns = {"gaussSpatialKernel": lambda k, sg: [[float(v) for v in row] for row in f.gauss_spatial_kernel(int(k), float(sg))],
                 "normalizedGaussian": lambda x, sg: float(f.normalized_gaussian(np.float64(x), float(sg)))}
        data = np.array(disp, dtype=np.float64)
        data[rng.randrange(ny), rng.randrange(nx)] = np.nan
        st = pyarr.PStore([cells(data)])
        with warnings.catch_warnings():
            warnings.simplefilter("ignore")
            k = pyarr.evaluate(bil["filterBilateral"], st, ny, nx, {"data": 0}, rats={"sigma_space": ss, "sigma_color": sc},
                               t8=t8, ufuns=ufuns)
            real = f.filter_bilateral(data, ss, sc)
        report.translator_checks += 1
        if not close(st.arr[k], cells(real)) or not close(st.arr[0], cells(data)):
            status.problem("translator", f"translated filter_bilateral evaluates differently from the real function on a {ny}x{nx} map, "
                           f"sigma_space {ss}, sigma_color {sc} (result close: {close(st.arr[k], cells(real))}, input afterwards equal: "
                           f"{close(st.arr[0], cells(data))})")
            return
        ds = fl.make_disp(np.array(disp, dtype=np.float64), flags, dtype="float64")
        st = pyarr.PStore([cells(ds["disparity_map"].data)])
        with warnings.catch_warnings():
            warnings.simplefilter("ignore")
            pyarr.evaluate(bil["filterDisparityBilateral"], st, ny, nx, {"disparity_map": 0}, ints={"validity_mask": flags.tolist()},
                           rats={"sigma_space": ss, "sigma_color": sc}, consts=consts, t8=t8, ufuns=ufuns)
            f.filter_disparity(ds)
        report.translator_checks += 1
        if not close(st.arr[0], cells(ds["disparity_map"].data)):
            status.problem("translator", f"translated BilateralFilter.filter_disparity evaluates differently from the real function on a "
                           f"{ny}x{nx} map, sigma_space {ss}, sigma_color {sc}")
            return
    report.count("kernel_cross_check_bilateral_maps", len(shapes))


def run(ctx, report, status):
    rng = ctx.rng
    translator_cross_check(report, status)
    kernel_cross_check(ctx, report, status)
    report.rule = (
        "random disparity maps (small integers / quarters / flat / ramp) with invalid pixels (0-45 %, blobs on borders, whole "
        "columns, invalid disparity = sentinel, NaN or an ordinary value), random information bits; median: filter_size "
        "1/3/5/7, shapes 3x3..8x8 and shapes straddling 100 (3x205, 205x3, 101x3, ...), applied once or twice, 30 % through "
        "PandoraMachine.filter_run with a mirrored right map; bilateral: sigma_space giving windows 1,2,3,4,5,7,19 (even "
        "and odd, clipped by the image), sigma_color 0.5/2/10, shapes straddling 50; median_for_intervals: bands with "
        "NaN, suffixes, with/without regularisation, applied once or twice. Non-trivial = at least one valid interior pixel."
    )
    for name, case in core.load_corpus(PROP):
        check_case(ctx, report, case)
    if ctx.thorough:  # exhaustive small scope: every 3x3 neighbourhood over {invalid, 0, 1}
        per = 729
        for start in range(0, 3**9, per):
            check_case(ctx, report, gen_exhaustive_tiles(start, per))
            report.count("median_exhaustive_3x3_tiles", per)
    else:
        check_case(ctx, report, gen_exhaustive_tiles(rng.randrange(0, 3**9 - 60), 60))
    for _ in range(ctx.n(90, 5000)):
        check_case(ctx, report, gen_median(rng))
        report.count("median_small")
    for shape in MEDIAN_BOUNDARY_QUICK + (MEDIAN_BOUNDARY_THOROUGH if ctx.thorough else []):
        for _ in range(ctx.n(1, 2)):
            check_case(ctx, report, gen_median(rng, shape))
            report.count("median_block_boundary")
    for _ in range(ctx.n(70, 3000)):
        check_case(ctx, report, gen_bilateral(rng))
        report.count("bilateral_small")
    for shape in BILATERAL_BOUNDARY_QUICK + (BILATERAL_BOUNDARY_THOROUGH if ctx.thorough else []):
        for _ in range(ctx.n(1, 2)):
            check_case(ctx, report, gen_bilateral(rng, shape))
            report.count("bilateral_block_boundary")
    for _ in range(ctx.n(40, 1500)):
        check_case(ctx, report, gen_intervals(rng))
        report.count("intervals")
    for shape in [(101, 3), (3, 102), (3, 215)]:
        check_case(ctx, report, gen_intervals(rng, shape))
        report.count("intervals_block_boundary")
    # long strips (several blocks) with a fully invalid block
    for shape in [(3, 230), (230, 3), (5, 310)]:
        for _ in range(ctx.n(2, 6)):
            check_case(ctx, report, gen_median(rng, shape))
            report.count("median_block_boundary")
    for shape in [(4, 120), (120, 4), (5, 160), (60, 62)]:
        for k in range(ctx.n(2, 6)):
            case = gen_bilateral(rng, shape)
            if k % 2 == 0:
                case["dtype"] = "float64"  # the output buffer must never alias the map the windows are read from
            check_case(ctx, report, case)
            report.count("bilateral_block_boundary")
    report.count("maps_with_invalid_band_covering_a_block", BAND_COUNTER[0])


def search(ctx, report, status):
    """Directed search after a broken obligation: block-boundary shapes first, then small maps, for the three filters,
    through the real classes with the Lean specification as oracle (the model is not consulted)."""
    import random

    sub = core.Report(PROP, ctx.tier, ctx.seed)
    rng = random.Random(777 + ctx.seed)
    plan = [(gen_median, s) for s in MEDIAN_BOUNDARY_QUICK] + [(gen_bilateral, s) for s in BILATERAL_BOUNDARY_QUICK]
    plan += [(gen_intervals, (101, 3))]
    plan += [(g, None) for _ in range(60) for g in (gen_median, gen_bilateral, gen_intervals)]
    for gen, shape in plan:
        check_case(ctx, sub, gen(rng, shape), compare_model=False)
        if sub.failures:
            return sub.failures[0]
    return None


def replay(ctx, report, path):
    with open(path, encoding="utf-8") as f:
        data = json.load(f)
    case = data["input"] if "input" in data else data
    check_case(ctx, report, case, shrink_fail=False)
    for fl_ in report.failures:
        print("spec failure:", fl_["clause"], fl_["trigger"], json.dumps(fl_["impl"], default=str)[:400], fl_["detail"])
    for d in report.disagreements:
        print("disagreement:", json.dumps(d, default=str)[:600])
    print("replayed: failures=%d disagreements=%d" % (len(report.failures), len(report.disagreements)))
    return 1 if report.failures else 0

