"""C03 — winner-takes-all picks each pixel's best cost inside its disparity interval.

Two streams of cases, both calling the real `WinnerTakesAll.to_disp`:
  * direct   : hand-built cost-volume datasets (any shape incl. sizes straddling the 100-pixel blocks, NaN patterns,
               planted ties, min/max measures, every kind of invalid_disparity, bands and flags to be carried over);
  * machine  : a real PandoraMachine runs matching_cost then disparity on a small image pair with per-pixel
               disparity grids (left and right side), observed right after the disparity step.
For every case: model == implementation (exact), the Lean specification evaluated on the implementation's
disparity map (per pixel), frame clauses (cost volume, bands, flags untouched) and crop-vs-whole block independence.
"""
from __future__ import annotations

import json
from fractions import Fraction

import numpy as np

from .. import core
from ..impl import wta

PROP = "C03"
BLOCK = 100  # only used to *aim* the generators at block boundaries; the model gets the literals from the translator


def translate():
    from translator import registry

    return registry.generate("Blocks", "KernelsWta")


# --------------------------------------------------------------------------------------------
# encoding
# --------------------------------------------------------------------------------------------
def enc_f(x):
    x = float(x)
    if x != x:
        return "nan"
    if x in (float("inf"), float("-inf")):
        return "inf" if x > 0 else "-inf"
    if x == int(x):
        return int(x)
    f = Fraction(x)
    return f"{f.numerator}/{f.denominator}"


def enc_arr(a):
    a = np.asarray(a)
    if a.ndim == 1:
        return [enc_f(v) for v in a.tolist()]
    return [enc_arr(s) for s in a]


def dec_f(j):
    if j == "nan":
        return float("nan")
    if isinstance(j, str):
        return float(Fraction(j))
    return float(j)


def dec_arr(j, dtype=np.float64):
    return np.array(_dec_nested(j), dtype=dtype)


def _dec_nested(j):
    if isinstance(j, list):
        return [_dec_nested(v) for v in j]
    return dec_f(j)


def invalid_value(cfg_val):
    """the number the configuration value denotes (what the pixel must receive exactly)"""
    if cfg_val is None:
        return -9999.0
    if cfg_val == "NaN":
        return float("nan")
    return float(cfg_val)


def split_literals(name):
    from translator import gen_blocks

    d = gen_blocks.extract()[name]
    out = {k: d[k] for k in ("startY", "stepY", "stopYDim", "startX", "stepX", "stopXDim")}
    for k in ("beginY", "beginX"):
        if d[k][0] != "lit":
            raise RuntimeError("winner-takes-all block loop starts at a size-dependent offset")
        out[k] = d[k][1]
    return out


_SPLITS = {}


def split_for(is_max):
    key = "wtaArgmax" if is_max else "wtaArgmin"
    if key not in _SPLITS:
        try:
            _SPLITS[key] = split_literals(key)
        except Exception:  # translator broken: already reported by build_and_audit; use the documented literals
            _SPLITS[key] = {"startY": 100, "stepY": 100, "stopYDim": 0, "startX": 100, "stepX": 100, "stopXDim": 1,
                            "beginY": 0, "beginX": 0}
    return _SPLITS[key]


# --------------------------------------------------------------------------------------------
# generators
# --------------------------------------------------------------------------------------------
SMALL_SHAPES = [(1, 1), (1, 3), (2, 2), (3, 4), (4, 3), (5, 6), (6, 7), (2, 9)]
BOUNDARY_SHAPES_QUICK = [(1, 230), (205, 2), (2, 101), (101, 1), (100, 3), (3, 100), (99, 2), (102, 3), (1, 199), (1, 201)]
BOUNDARY_SHAPES_THOROUGH = [(101, 101), (201, 3), (3, 301), (100, 100), (103, 205), (200, 2), (1, 100), (1, 101)]
# every value is exactly representable in float32 (the disparity map is a float32 array)
INVALIDS = [None, -9999, 0, "NaN", float("nan"), 7.5, -1, 3, -0.25, 16777216]


def gen_direct(rng, shape=None, many=False):
    rows, cols = shape or rng.choice(SMALL_SHAPES)
    subpix = rng.choice([1, 1, 2, 4])
    nd = rng.choice([1, 2, 3, 3, 4, 5, 6]) if rows * cols < 400 else rng.choice([1, 2, 3])
    if many:  # more disparity samples than a byte can index (wide intervals, subpix 4)
        rows, cols = rng.choice([(2, 3), (3, 2), (1, 4)])
        nd = rng.choice([257, 300, 513, 700])
    d0 = rng.randrange(-5, 4) if not many else -(nd // (2 * subpix))
    disps = [d0 + k / subpix for k in range(nd)]
    is_max = rng.random() < 0.5
    style = rng.choice(["ties", "ties", "wide", "quarters", "constant"]) if not many else rng.choice(["wide", "wide", "ties"])
    if style == "ties":
        cost = np.array([[[rng.randrange(0, 3) for _ in range(nd)] for _ in range(cols)] for _ in range(rows)], dtype=float)
    elif style == "wide":
        cost = np.array([[[rng.randrange(-40, 40) for _ in range(nd)] for _ in range(cols)] for _ in range(rows)], dtype=float)
    elif style == "quarters":
        cost = np.array([[[rng.randrange(-8, 8) / 4 for _ in range(nd)] for _ in range(cols)] for _ in range(rows)], dtype=float)
    else:
        cost = np.full((rows, cols, nd), float(rng.randrange(-2, 3)))
    # per-pixel intervals: the cost is NaN outside [lo, hi] (what cv_masked leaves)
    lo = np.full((rows, cols), disps[0])
    hi = np.full((rows, cols), disps[-1])
    if rng.random() < 0.7:
        for r in range(rows):
            for c in range(cols):
                if rng.random() < 0.5:
                    a = rng.randrange(0, nd)
                    b = rng.randrange(a, nd)
                    # bounds need not be samples
                    lo[r, c] = disps[a] - rng.choice([0, 0, 0.125])
                    hi[r, c] = disps[b] + rng.choice([0, 0, 0.125])
                elif rng.random() < 0.08:  # interval entirely outside the sampled range
                    lo[r, c] = disps[-1] + 1
                    hi[r, c] = disps[-1] + 2
    dd = np.array(disps)
    outside = (dd[None, None, :] < lo[:, :, None]) | (dd[None, None, :] > hi[:, :, None])
    cost[outside] = np.nan
    # other causes of NaN: borders, masks
    p_nan = rng.choice([0.0, 0.0, 0.15, 0.4])
    if p_nan:
        m = np.array([[[rng.random() < p_nan for _ in range(nd)] for _ in range(cols)] for _ in range(rows)])
        cost[m] = np.nan
    if rng.random() < 0.3:  # NaN rows / columns / whole pixels
        cost[rng.randrange(rows), :, :] = np.nan
    if rng.random() < 0.3:
        cost[:, rng.randrange(cols), :] = np.nan
    if rng.random() < 0.2:
        cost[:, :, rng.randrange(nd)] = np.nan
    flags = np.array([[rng.choice([0, 0, 1, 2, 4, 6, 64, 128, 65, 2048]) for _ in range(cols)] for _ in range(rows)])
    nb = rng.choice([0, 0, 1, 2]) if rows * cols < 400 else rng.choice([0, 1])
    conf = None
    indicators = None
    if nb:
        conf = np.array([[[rng.choice([0.0, 0.5, 1.0, 2.25, float("nan")]) for _ in range(nb)] for _ in range(cols)] for _ in range(rows)])
        indicators = ["confidence_from_ambiguity", "confidence_from_left_right_consistency"][:nb]
    return {
        "kind": "direct",
        "rows": rows, "cols": cols, "disps": enc_arr(disps), "is_max": is_max,
        "cost": enc_arr(cost), "lo": enc_arr(lo), "hi": enc_arr(hi),
        "invalid_cfg": enc_invalid(rng.choice(INVALIDS)),
        "flags": flags.tolist(), "conf": None if conf is None else enc_arr(conf), "indicators": indicators,
        "row0": rng.choice([0, 0, 3, 250]), "col0": rng.choice([0, 0, 7, 95]),
    }


def gen_used(rng, shape=None):
    """a USED cost volume: the dataset has already been through `to_disp` once (it carries `disp_indices`, bands, …) and
    its costs were rewritten in place since (another NaN pattern, other winners) — or left as they were.  The second
    call is judged like a first one: the statement quantifies over every cost volume."""
    case = gen_direct(rng, shape)
    rows, cols, nd = case["rows"], case["cols"], len(case["disps"])
    if rng.random() < 0.25:
        case["prior_cost"] = case["cost"]
    else:
        prior = np.array([[[rng.randrange(0, 4) for _ in range(nd)] for _ in range(cols)] for _ in range(rows)], dtype=float)
        m = np.array([[[rng.random() < 0.25 for _ in range(nd)] for _ in range(cols)] for _ in range(rows)])
        prior[m] = np.nan
        if rng.random() < 0.3:
            prior[rng.randrange(rows), rng.randrange(cols), :] = np.nan
        case["prior_cost"] = enc_arr(prior)
    return case


def enc_invalid(v):
    if isinstance(v, float) and v != v:
        return "nan-float"
    return v


def dec_invalid(v):
    return float("nan") if v == "nan-float" else v


def gen_machine(rng):
    rows, cols = rng.choice([(4, 6), (5, 8), (6, 9), (3, 12)])
    style = rng.choice(["random", "uniform", "shifted"])
    if style == "uniform":
        left = np.full((rows, cols), 3)
        right = np.full((rows, cols), 3)
    elif style == "shifted":
        base = np.array([[rng.randrange(0, 6) for _ in range(cols + 4)] for _ in range(rows)])
        left = base[:, 2:2 + cols]
        right = base[:, 1:1 + cols]
    else:
        left = np.array([[rng.randrange(0, 5) for _ in range(cols)] for _ in range(rows)])
        right = np.array([[rng.randrange(0, 5) for _ in range(cols)] for _ in range(rows)])
    g0 = rng.randrange(-3, 2)
    if rng.random() < 0.7:
        dmin = np.array([[g0 + rng.randrange(0, 3) for _ in range(cols)] for _ in range(rows)])
        dmax = dmin + np.array([[rng.randrange(0, 4) for _ in range(cols)] for _ in range(rows)])
    else:
        dmin = np.full((rows, cols), g0)
        dmax = np.full((rows, cols), g0 + rng.randrange(0, 4))
    ml = mr = None
    if rng.random() < 0.4:
        ml = np.array([[1 if rng.random() < 0.15 else 0 for _ in range(cols)] for _ in range(rows)])
    if rng.random() < 0.4:
        mr = np.array([[1 if rng.random() < 0.15 else 0 for _ in range(cols)] for _ in range(rows)])
    return {
        "kind": "machine",
        "left": left.tolist(), "right": right.tolist(), "dmin": dmin.tolist(), "dmax": dmax.tolist(),
        "mask_left": None if ml is None else ml.tolist(), "mask_right": None if mr is None else mr.tolist(),
        "measure": (meas := rng.choice(["sad", "ssd", "census", "zncc"])), "window": 3 if meas == "census" else rng.choice([1, 3]),
        "subpix": rng.choice([1, 2, 4]), "invalid_cfg": enc_invalid(rng.choice(INVALIDS)),
        "with_right": rng.random() < 0.6,
        # seed C03-5: one machine object used for two runs whose disparity steps name different invalid values
        **({"prior_invalid_cfg": enc_invalid(rng.choice(INVALIDS))} if rng.random() < 0.4 else {}),
    }


# --------------------------------------------------------------------------------------------
# one case
# --------------------------------------------------------------------------------------------
def pixel_trigger(is_max, fail, rows, cols):
    costs = fail.get("costs", [])
    nums = [c for c in costs if c != "nan"]
    kind = "allnan" if not nums else ("tie" if len(nums) != len(set(map(str, nums))) else "plain")
    where = "block0" if fail["r"] < BLOCK and fail["c"] < BLOCK else "beyond_block0"
    return f"{'max' if is_max else 'min'}_{kind}_{where}"


def eval_side(ctx, report, case, label, cost_before, disps, is_max, lo, hi, inv_cfg, snap_before, snap_after, obs,
              compare_model=True, tag=""):
    """spec on the implementation + (optionally) model == implementation, for one disparity dataset"""
    rows, cols, _ = cost_before.shape
    inv = invalid_value(inv_cfg)
    payload = {
        "rows": rows, "cols": cols, "is_max": is_max, "disps": enc_arr(disps), "cv": enc_arr(cost_before),
        "invalid": enc_f(inv),
    }
    impl_disp = enc_arr(obs["disparity_map"])
    # ---- correspondence with the model
    if compare_model:
        model = ctx.lean.call("C03.wta", split=split_for(is_max), **payload)
        if model["disp"] != impl_disp:
            bad = [(r, c) for r in range(rows) for c in range(cols) if model["disp"][r][c] != impl_disp[r][c]][:5]
            report.disagree(f"{label}.disparity_map", case, {"cells": [[r, c, impl_disp[r][c]] for r, c in bad]},
                            {"cells": [[r, c, model["disp"][r][c]] for r, c in bad]})
        if model["cv_after"] != enc_arr(snap_after["cost_volume"]):
            report.disagree(f"{label}.cost_volume_after", case, "differs", "model restores every cell")
    # ---- specification on the implementation's output
    res = ctx.lean.call("C03.spec", lo=enc_arr(lo), hi=enc_arr(hi), out=impl_disp, **payload)
    if res["not_wf"]:
        report.notes.append(f"generator produced a non-well-formed pixel in {label}: {res['not_wf'][:2]}")
    for f in res["failures"][:3]:
        clause = f["clauses"][0]
        if not (f["r"] < BLOCK and f["c"] < BLOCK) and rows * cols > 1:
            detail = "pixel beyond the first processing block; "
        else:
            detail = ""
        report.fail(clause, pixel_trigger(is_max, f, rows, cols) + tag, case, {"pixel": [f["r"], f["c"]], "got": f["out"],
                    "expected": f["expected"], "costs": f["costs"], "side": label},
                    detail + f"clauses false at this pixel: {f['clauses']}")
    if res["with_cost"]:
        for cl in ("is_sample", "is_best", "in_pixel_interval"):
            report.hit(cl, res["with_cost"])
    if res["ties"]:
        report.hit("tie_lowest", res["ties"])
    if res["all_nan"]:
        report.hit("all_nan_invalid_value", res["all_nan"])
    report.count("pixels", rows * cols)
    report.count("pixels_partial_nan", res["partial_nan"])
    # ---- frame clauses (one-liners on the implementation)
    report.hit("cv_unchanged")
    a, b = snap_before["cost_volume"], snap_after["cost_volume"]
    if not (a.shape == b.shape and a.dtype == b.dtype and np.array_equal(a, b, equal_nan=True)):
        report.fail("cv_unchanged", "max" if is_max else "min", case, {"side": label}, "cost volume changed by the disparity step")
    report.hit("flags_carried")
    if not np.array_equal(snap_before["validity_mask"], obs["validity_mask"]) or not np.array_equal(
        snap_before["validity_mask"], snap_after["validity_mask"]
    ):
        report.fail("flags_carried", "mask", case, {"side": label, "got": obs["validity_mask"].tolist()})
    if "confidence_measure" in snap_before:
        report.hit("bands_carried")
        ok = (
            "confidence_measure" in obs
            and obs["indicator"] == snap_before["indicator"]
            and np.array_equal(snap_before["confidence_measure"], obs["confidence_measure"], equal_nan=True)
            and np.array_equal(snap_before["confidence_measure"], snap_after["confidence_measure"], equal_nan=True)
        )
        if not ok:
            report.fail("bands_carried", "bands", case, {"side": label})
    elif "confidence_measure" in obs:
        report.fail("bands_carried", "band_invented", case, {"side": label})
    return res


def crop_independent(report, case, cost, disps, is_max, flags, inv_cfg, whole):
    """block independence observed directly: crops around every block boundary give the same disparities"""
    rows, cols, _ = cost.shape
    spans = []
    for b in range(BLOCK, rows, BLOCK):
        spans.append((max(0, b - 2), min(rows, b + 2), 0, min(cols, 3)))
        spans.append((max(0, b - 2), min(rows, b + 2), max(0, cols - 3), cols))
    for b in range(BLOCK, cols, BLOCK):
        spans.append((0, min(rows, 3), max(0, b - 2), min(cols, b + 2)))
        spans.append((max(0, rows - 3), rows, max(0, b - 2), min(cols, b + 2)))
    for (r0, r1, c0, c1) in spans[:8]:
        cv = wta.make_cv(cost[r0:r1, c0:c1], disps, "max" if is_max else "min", flags[r0:r1, c0:c1])
        out, _ = wta.to_disp(cv, inv_cfg)
        report.hit("block_independent")
        if not np.array_equal(out["disparity_map"].data, whole[r0:r1, c0:c1], equal_nan=True):
            report.fail("block_independent", "crop_differs", case, {"crop": [r0, r1, c0, c1]},
                        "the disparities of a crop around a block boundary differ from the same pixels of the whole image")


def run_direct(ctx, report, case, label="direct", compare_model=True):
    cost = dec_arr(case["cost"])
    disps = [dec_f(d) for d in case["disps"]]
    lo, hi = dec_arr(case["lo"]), dec_arr(case["hi"])
    flags = np.array(case["flags"])
    conf = None if case.get("conf") is None else dec_arr(case["conf"])
    is_max = case["is_max"]
    inv_cfg = dec_invalid(case["invalid_cfg"])
    used = case.get("prior_cost") is not None
    tag = "_used_cost_volume" if used else ""
    cv = wta.make_cv(dec_arr(case["prior_cost"]) if used else cost, disps, "max" if is_max else "min", flags, conf,
                     case.get("indicators"), case.get("row0", 0), case.get("col0", 0))
    if used:
        # the dataset goes through the step once, then its costs are rewritten in place (same shape): the call under
        # test is the SECOND one, on the same dataset object
        report.count("used_cost_volume_costs_unchanged" if case["prior_cost"] == case["cost"] else "used_cost_volume_costs_changed")
        try:
            wta.to_disp(cv, inv_cfg)
        except Exception:  # pylint: disable=broad-except
            pass  # the first call is not the one under test (a fresh volume with these costs is judged elsewhere)
        cv["cost_volume"].data[...] = np.array(cost, dtype=np.float32)
    before = wta.snapshot(cv)
    try:
        out, _ = wta.to_disp(cv, inv_cfg)
    except Exception as exc:  # pylint: disable=broad-except
        where = ("block0" if case["rows"] <= BLOCK and case["cols"] <= BLOCK else "beyond_block0") + tag
        report.fail("is_sample", f"raises_{type(exc).__name__}_{where}", case, {"exception": f"{type(exc).__name__}: {exc}"},
                    "the disparity step raised instead of producing a disparity map")
        return {"with_cost": 1, "all_nan": 0, "ties": 0}
    after = wta.snapshot(cv)
    obs = wta.observe(out)
    res = eval_side(ctx, report, case, label, before["cost_volume"].astype(np.float64), disps, is_max, lo, hi, inv_cfg,
                    before, after, obs, compare_model, tag)
    written_through_result(report, case, cv, out, after, obs, tag)
    rows, cols = case["rows"], case["cols"]
    if rows > BLOCK or cols > BLOCK:
        crop_independent(report, case, cost, disps, is_max, flags, inv_cfg, obs["disparity_map"])
    return res


def written_through_result(report, case, cv, out, after, obs, tag=""):
    """a two-step history: the steps after `disparity` (validation, filter, refinement) WRITE flags and disparities into the
    returned dataset.  The cost-volume dataset must not follow: its validity mask keeps the flags it had (`flags_carried`
    is about two datasets, not one array seen twice) and `cv["disp_indices"]` keeps the map it saved."""
    report.hit("flags_carried")
    try:
        out["validity_mask"].data[...] = out["validity_mask"].data ^ 1
        out["disparity_map"].data[...] = 12345.0
    except Exception as exc:  # pylint: disable=broad-except
        report.fail("flags_carried", "result_not_writable" + tag, case, {"exception": f"{type(exc).__name__}: {exc}"},
                    "the returned dataset cannot be written by the next steps")
        return
    if not np.array_equal(cv["validity_mask"].data, after["validity_mask"]):
        bad = np.argwhere(cv["validity_mask"].data != after["validity_mask"])[0].tolist()
        report.fail("flags_carried", "cost_volume_flags_follow_the_result" + tag, case,
                    {"pixel": bad, "cost_volume_flag_before": int(after["validity_mask"][tuple(bad)]),
                     "cost_volume_flag_after_writing_the_result": int(cv["validity_mask"].data[tuple(bad)])},
                    "flags written into the returned validity mask appear in the cost volume's validity mask (one array, two datasets)")
    if "disp_indices" in cv.data_vars and not np.array_equal(np.array(cv["disp_indices"].data), obs["disparity_map"], equal_nan=True):
        report.fail("cv_unchanged", "disp_indices_follow_the_result" + tag, case, {"side": "direct"},
                    "disparities written into the returned map appear in cv['disp_indices']")


def run_machine_case(ctx, report, case, compare_model=True):
    il, ir = wta.make_pair(np.array(case["left"]), np.array(case["right"]), np.array(case["dmin"]), np.array(case["dmax"]),
                           None if case["mask_left"] is None else np.array(case["mask_left"]),
                           None if case["mask_right"] is None else np.array(case["mask_right"]))
    inv_cfg = dec_invalid(case["invalid_cfg"])
    tot = {"with_cost": 0, "all_nan": 0, "ties": 0}
    try:
        prior = dec_invalid(case["prior_invalid_cfg"]) if "prior_invalid_cfg" in case else wta.NO_PRIOR
        if prior is not wta.NO_PRIOR:
            report.count("machine_used_before_with_another_invalid_value")
        sides = wta.run_machine(il, ir, case["measure"], case["window"], case["subpix"], inv_cfg, case["with_right"], prior)
    except wta.MatchingCostFailed as exc:
        report.count("machine_skipped_matching_cost_raised")
        if len(report.notes) < 5:
            report.notes.append(f"matching_cost raised on a generated pair (outside C03): {exc} "
                                f"[{case['measure']} w{case['window']} subpix{case['subpix']} {len(case['left'])}x{len(case['left'][0])}]")
        return tot
    except wta.DisparityStepRaised as exc:
        report.fail("is_sample", "machine_raises", case, {"exception": str(exc)},
                    "the disparity step raised instead of producing a disparity map")
        return {"with_cost": 1, "all_nan": 0, "ties": 0}
    for side, d in sides.items():
        is_max = d["type_measure"] == "max"
        res = eval_side(ctx, report, case, "machine." + side, d["before"]["cost_volume"].astype(np.float64), list(d["disps"]),
                        is_max, d["lo"], d["hi"], inv_cfg, d["before"], d["after"], d["obs"], compare_model)
        for k in tot:
            tot[k] += res[k]
    return tot


def check_case(ctx, report, case, label, compare_model=True, shrink_fail=True):
    n_before = len(report.failures)
    res = _check_case(ctx, report, case, label, compare_model)
    if shrink_fail and len(report.failures) > n_before:
        report.failures[n_before] = shrink(ctx, report.failures[n_before])
    return res


def _check_case(ctx, report, case, label, compare_model=True):
    if case["kind"] == "direct":
        res = run_direct(ctx, report, case, label, compare_model)
        key = ("direct", json.dumps([case["rows"], case["cols"], case["is_max"], case["invalid_cfg"], case["disps"], case["cost"],
                                     case.get("prior_cost")]))
        sample = {"kind": "direct", "shape": [case["rows"], case["cols"], len(case["disps"])], "is_max": case["is_max"],
                  "invalid": case["invalid_cfg"], "pixels_with_cost": res["with_cost"], "all_nan": res["all_nan"], "ties": res["ties"]}
    else:
        res = run_machine_case(ctx, report, case, compare_model)
        key = ("machine", json.dumps(case, sort_keys=True))
        sample = {"kind": "machine", "measure": case["measure"], "subpix": case["subpix"], "right": case["with_right"],
                  "pixels_with_cost": res["with_cost"], "all_nan": res["all_nan"], "ties": res["ties"]}
    report.case(key=key, nontrivial=res["with_cost"] > 0, sample=sample)
    return res


def translator_cross_check(report, status):
    from translator import gen_blocks

    try:
        gen = gen_blocks.extract()
    except Exception:  # already reported by build_and_audit
        return
    live = wta.live_block_literals()
    for name, key in (("argmin_split", "wtaArgmin"), ("argmax_split", "wtaArgmax")):
        report.translator_checks += 1
        want = [(gen[key]["startY"], gen[key]["stepY"]), (gen[key]["startX"], gen[key]["stepX"])]
        if live[name] != want:
            status.problem("translator", f"block literals of {name}: translator read {want}, live source has {live[name]}")


def kernel_cross_check(ctx, report, status):
    """T15: the real `WinnerTakesAll.to_disp` against the translator's exact reading of its source
    (`gen_kernels_wta.evaluate_to_disp` on the statement list `Generated/KernelsWta.lean` is printed from; Lean's own reading
    of that text is checked at build time by the generated `example`s): the disparity map, the cost volume afterwards,
    `cv["disp_indices"]`, and how the carried fields are handed over (shared memory or not)."""
    from fractions import Fraction

    from translator import gen_blocks, gen_kernels_wta as gk, pyarr

    try:
        splits, td = gk.functions()
        t8 = gen_blocks.extract()
    except Exception:  # already reported by build_and_audit (translate())  # pylint: disable=broad-except
        return
    import random

    def exact(v):
        v = float(v)
        return pyarr.NAN if np.isnan(v) else (v if np.isinf(v) else Fraction(v))

    def same(a, b):
        return (pyarr.is_nan(a) and pyarr.is_nan(b)) or (not pyarr.is_nan(a) and not pyarr.is_nan(b) and a == b)

    rng = random.Random(999 + ctx.seed)
    shapes = [(2, 101), (101, 1)] + [None] * ctx.n(30, 300)
    for shape in shapes:
        case = gen_direct(rng, shape)
        cost, disps = dec_arr(case["cost"]), [dec_f(d) for d in case["disps"]]
        ny, nx, nd = cost.shape
        is_max = case["is_max"]
        inv_cfg = dec_invalid(case["invalid_cfg"])
        conf = None if case.get("conf") is None else dec_arr(case["conf"])
        cv = wta.make_cv(cost, disps, "max" if is_max else "min", np.array(case["flags"]), conf, case.get("indicators"))
        try:
            out, inv_used = wta.to_disp(cv, inv_cfg)
        except Exception:  # pylint: disable=broad-except
            continue  # judged by the main stream
        cvl = [[[exact(v) for v in px] for px in row] for row in np.array(cost, dtype=np.float32)]
        inv = exact(np.float32(inv_used))
        dmap, dind = gk.evaluate_to_disp(td, splits, t8, cvl, ny, nx, nd, [Fraction(d) for d in disps], is_max, inv)
        report.translator_checks += 1
        ok_map = all(same(exact(out["disparity_map"].data[r, c]), dmap[r][c]) for r in range(ny) for c in range(nx))
        ok_cv = all(same(exact(cv["cost_volume"].data[r, c, k]), cvl[r][c][k]) for r in range(ny) for c in range(nx) for k in range(nd))
        ok_ind = dind is None or ("disp_indices" in cv and all(
            same(exact(cv["disp_indices"].data[r, c]), dind[r][c]) for r in range(ny) for c in range(nx))
            and not np.shares_memory(cv["disp_indices"].data, out["disparity_map"].data))
        carried = td["carried"]
        ok_carry = True
        if "validity_mask" in carried:
            shared = np.shares_memory(out["validity_mask"].data, cv["validity_mask"].data)
            ok_carry = ok_carry and (shared == (carried["validity_mask"] == "alias"))
        if conf is not None and "confidence_measure" in carried:
            shared = np.shares_memory(out["confidence_measure"].data, cv["confidence_measure"].data)
            ok_carry = ok_carry and (shared == (carried["confidence_measure"] == "alias"))
        if not (ok_map and ok_cv and ok_ind and ok_carry):
            status.problem("translator", f"translated to_disp evaluates differently from the real function on a {ny}x{nx}x{nd} volume "
                           f"(map {ok_map}, cost volume afterwards {ok_cv}, disp_indices {ok_ind}, carried fields {ok_carry})")
            return
    report.count("kernel_cross_check_volumes", len(shapes))


def run(ctx, report, status):
    rng = ctx.rng
    translator_cross_check(report, status)
    kernel_cross_check(ctx, report, status)
    report.rule = (
        "direct: random cost volumes (small shapes + shapes straddling the 100-pixel blocks), sub-pixel disparity coordinates, "
        "small integer/quarter costs with planted ties, NaN outside random per-pixel intervals plus NaN rows/columns/planes, "
        "min and max measures, invalid_disparity in {default,-9999,0,'NaN',nan,7.5,a sample value,...}, random flags and 0-2 "
        "confidence bands; used: the same volumes after the dataset has already been through to_disp once and its costs were "
        "rewritten in place (or left unchanged), the second call judged like a first one; machine: real matching_cost+disparity on 3..6 x 6..12 pairs with per-pixel grids, 4 measures, "
        "subpix 1/2/4, left and right. Non-trivial = at least one pixel with a computable cost; distinct by full input."
    )
    for name, case in core.load_corpus(PROP):
        check_case(ctx, report, case, "corpus:" + name)
    # exhaustive small scope: every row of <= 4 costs over {NaN, 0, 1, 2}, both measures (1 x 256 crosses two blocks)
    for k in (1, 2, 3, 4):
        for is_max in (False, True):
            check_case(ctx, report, gen_exhaustive_rows(k, is_max, rng.choice([None, "NaN", 0])), "exhaustive_rows")
            report.count("exhaustive_rows_cases")
    for _ in range(ctx.n(150, 8000)):
        case = gen_direct(rng)
        check_case(ctx, report, case, "direct")
        report.count("direct_small")
        report.count("measure_max" if case["is_max"] else "measure_min")
        report.count(f"invalid_{case['invalid_cfg']}")
    for _ in range(ctx.n(6, 60)):
        check_case(ctx, report, gen_direct(rng, many=True), "direct")
        report.count("direct_many_disparities")
    for k in range(ctx.n(40, 1500)):
        check_case(ctx, report, gen_used(rng, (2, 101) if k == 0 else None), "direct.used")
        report.count("direct_used_cost_volume")
    shapes = list(BOUNDARY_SHAPES_QUICK)
    if ctx.thorough:
        shapes += BOUNDARY_SHAPES_THOROUGH
    for shape in shapes:
        for _ in range(ctx.n(1, 3)):
            case = gen_direct(rng, shape)
            check_case(ctx, report, case, "direct")
            report.count("direct_block_boundary")
    for _ in range(ctx.n(25, 400)):
        check_frame_infinite(ctx, report, rng)
    for _ in range(ctx.n(40, 2000)):
        case = gen_machine(rng)
        check_case(ctx, report, case, "machine")
        report.count("machine")
        report.count(f"machine_{case['measure']}")


def check_frame_infinite(ctx, report, rng):
    """frame clauses only, on a cost volume that also holds infinite costs (outside the model, whose costs are numbers or
    NaN): the disparity step must still leave every cost, flag and band as it found them, bit for bit"""
    rows, cols, nd = rng.randrange(1, 6), rng.randrange(1, 8), rng.randrange(1, 6)
    is_max = rng.random() < 0.5
    cost = np.array([[[rng.choice([0.0, 1.0, 2.5, float("nan"), float("inf"), float("-inf"), float("inf")]) for _ in range(nd)]
                      for _ in range(cols)] for _ in range(rows)], dtype=np.float32)
    flags = np.array([[rng.choice([0, 0, 4, 1, 2]) for _ in range(cols)] for _ in range(rows)])
    cv = wta.make_cv(cost, [j - 1.0 for j in range(nd)], "max" if is_max else "min", flags)
    before = wta.snapshot(cv)
    try:
        out, _inv = wta.to_disp(cv, rng.choice([None, -9999, "NaN", 0]))
    except Exception as exc:  # pylint: disable=broad-except
        report.count(f"frame_infinite_raises_{type(exc).__name__}")
        return
    after = wta.snapshot(cv)
    case = {"kind": "frame_infinite", "is_max": is_max, "cost": [[[("nan" if v != v else ("inf" if v == float("inf") else ("-inf" if v == float("-inf") else float(v)))) for v in px] for px in row] for row in cost.tolist()],
            "flags": flags.tolist()}
    report.case(key=json.dumps(case, sort_keys=True), nontrivial=True, sample={"label": "frame_infinite", "shape": [rows, cols, nd]})
    report.hit("cv_unchanged")
    a, b = before["cost_volume"], after["cost_volume"]
    if not (a.shape == b.shape and a.dtype == b.dtype and np.array_equal(a, b, equal_nan=True)):
        diff = np.argwhere(~((a == b) | (np.isnan(a) & np.isnan(b))))
        report.fail("cv_unchanged", "infinite_costs", case, {"cells_changed": diff[:5].tolist()},
                    "the disparity step changed cells of a cost volume that holds infinite costs")
    report.hit("flags_carried")
    if not np.array_equal(before["validity_mask"], after["validity_mask"]) or not np.array_equal(before["validity_mask"], np.array(out["validity_mask"].data)):
        report.fail("flags_carried", "infinite_costs", case, None)


def gen_exhaustive_rows(k, is_max, invalid_cfg):
    """every cost row of length k over {NaN, 0, 1, 2} as the pixels of one 1 x 4^k volume (all tie and NaN patterns)"""
    import itertools

    alphabet = [float("nan"), 0.0, 1.0, 2.0]
    rows = list(itertools.product(alphabet, repeat=k))
    cost = np.array(rows, dtype=float).reshape(1, len(rows), k)
    disps = [-1 + j / 2 for j in range(k)]
    n = len(rows)
    return {
        "kind": "direct", "rows": 1, "cols": n, "disps": enc_arr(disps), "is_max": is_max, "cost": enc_arr(cost),
        "lo": enc_arr(np.full((1, n), disps[0])), "hi": enc_arr(np.full((1, n), disps[-1])),
        "invalid_cfg": invalid_cfg, "flags": np.zeros((1, n), dtype=int).tolist(), "conf": None, "indicators": None,
        "row0": 0, "col0": 0,
    }


def search(ctx, report, status):
    """Directed search after a broken obligation: block-boundary shapes and small volumes, both measures, every
    invalid value, through the real to_disp with the Lean specification as oracle (the model is not consulted)."""
    import random

    sub = core.Report(PROP, ctx.tier, ctx.seed)
    rng = random.Random(12345 + ctx.seed)
    for k in (1, 2, 3, 4):
        for is_max in (False, True):
            check_case(ctx, sub, gen_exhaustive_rows(k, is_max, None), "search", compare_model=False)
            if sub.failures:
                return sub.failures[0]
    plan = [(s, None) for s in BOUNDARY_SHAPES_QUICK] + [(None, None)] * 150 + [(s, None) for s in BOUNDARY_SHAPES_THOROUGH[:4]]
    for shape, _ in plan:
        case = gen_direct(rng, shape)
        check_case(ctx, sub, case, "search", compare_model=False)
        if sub.failures:
            return sub.failures[0]
    for _ in range(60):
        check_case(ctx, sub, gen_used(rng), "search", compare_model=False)
        if sub.failures:
            return sub.failures[0]
    for _ in range(60):
        check_case(ctx, sub, gen_machine(rng), "search", compare_model=False)
        if sub.failures:
            return sub.failures[0]
    return None


def shrink(ctx, failure):
    """try to reduce a failing direct case to the failing pixel's row strip / column strip / single pixel"""
    case = failure["case"]
    if case.get("kind") != "direct" or not isinstance(failure.get("impl"), dict) or "pixel" not in failure["impl"]:
        return failure
    r, c = failure["impl"]["pixel"]
    for (r0, r1, c0, c1) in ((r, r + 1, c, c + 1), (r, r + 1, 0, case["cols"]), (0, case["rows"], c, c + 1)):
        small = dict(case)
        small["rows"], small["cols"] = r1 - r0, c1 - c0
        for k in ("cost", "prior_cost", "lo", "hi", "flags", "conf"):
            if case.get(k) is not None:
                small[k] = [row[c0:c1] for row in case[k][r0:r1]]
        sub = core.Report(PROP, ctx.tier, ctx.seed)
        try:
            check_case(ctx, sub, small, "shrink", compare_model=False, shrink_fail=False)
        except Exception:  # pylint: disable=broad-except
            continue
        same = [f for f in sub.failures if f["clause"] == failure["clause"]]
        if same:
            f = same[0]
            f["trigger"] = failure["trigger"]
            return f
    return failure


def replay(ctx, report, path):
    with open(path, encoding="utf-8") as f:
        data = json.load(f)
    case = data["input"] if "input" in data else data
    check_case(ctx, report, case, "replay")
    for fl in report.failures:
        print("spec failure:", fl["clause"], fl["trigger"], json.dumps(fl["impl"], default=str)[:400], fl["detail"])
    for d in report.disagreements:
        print("disagreement:", json.dumps(d, default=str)[:600])
    print("replayed: failures=%d disagreements=%d" % (len(report.failures), len(report.disagreements)))
    return 1 if report.failures else 0
