"""C11 — cross-based aggregation averages costs over the combined support region.

Three streams, all on the real Pandora code (harness/impl/cbca_adapter.py):
  arms   `cross_support` on small images with masked (inf) pixels          vs `crossSupport` / `armRef`
  steps  `cbca_step_1..4` wired as in `cost_volume_aggregation`            vs `step2/sum2/step4/sum4` / `specSum, specCount`
  full   `AbstractAggregation(cbca).cost_volume_aggregation` on datasets    vs `aggregate` / `specCell`
         (cost volumes: synthetic integer ones and the output of the real sad/census matching cost)
Arithmetic is exact: integer radiometry (medians and sub-pixel interpolation are k/8), dyadic intensity
thresholds, integer or k/4 costs with partial sums far below 2^24. The model returns (sum, count); the
harness forms float32(sum)/float32(count) — one correctly rounded operation — and compares bit for bit.
"""
from __future__ import annotations

import json
import math
from fractions import Fraction

import numpy as np

from .. import core
from ..impl import cbca_adapter as ad
from ..impl import cbca_steps_kernels as steps_kernels

PROP = "C11"
INTENSITIES = [Fraction(1, 2), Fraction(1), Fraction(2), Fraction(3), Fraction(5), Fraction(21, 2), Fraction(30)]


def translate():
    from translator import registry

    return registry.generate("Cbca", "KernelsCbca", "KernelsCbcaSteps", "KernelsCbcaGlue")


# --------------------------------------------------------------------------------------------
# translator cross-check
# --------------------------------------------------------------------------------------------
_RULE = {"value": None}


def source_rule(report=None, status=None):
    """Which "minimum 1" rule the source text uses (translator), cross-checked on the live function."""
    if _RULE["value"] is not None:
        return _RULE["value"]
    rule = None
    try:
        from translator import gen_cbca

        ext = gen_cbca.extract()
        rule = ext["min_rule"]
        if report is not None:
            report.translator_checks += 1
            live = ad.class_defaults()
            if live != ext["defaults"] and status is not None:
                status.problem("translator", f"class defaults differ: source {ext['defaults']} live {live}")
    except Exception as exc:  # already reported by build_and_audit  # pylint: disable=broad-except
        if report is not None:
            report.notes.append(f"translator: {type(exc).__name__}: {exc}")
    # behavioural probe of the live function: row [1, 1, inf, 1, 1], distance 1
    probe = ad.cross_support([[1, 1, None, 1, 1]], 1, 5.0)
    live_rule = "loopVar" if int(probe[0, 1, 1]) == 1 else "neighbour"
    if rule is None:
        rule = live_rule
    elif rule != live_rule and status is not None:
        # keep `rule`: it is what the theorems of this run were built against
        status.problem("translator", f"min-rule read from the source ({rule}) differs from the live function ({live_rule})")
    if report is not None:
        report.translator_checks += 1
    _RULE["value"] = rule
    return rule


# --------------------------------------------------------------------------------------------
# the regenerated kernel (translator/pyloops.py, Generated/KernelsCbca.lean): translator cross-check
# --------------------------------------------------------------------------------------------
def kernel_images(rng, count):
    """small float images for the translator cross-check: integers / halves, +inf (masked), and — the real function
    accepts them, so the translator's reading must too — a few -inf and NaN cells"""
    out = []
    for row in ([1, 1, "inf", 1, 1], [1, 7, 1, 1, 7, 7, 1], ["inf", 1, 1, "inf"], [1], ["inf"], [0, 5, 10, 15, 20, 25],
                [1, "nan", 1, 1], [1, "-inf", 1], [3, 3, 8, 3, 3]):
        out.append([row])
        out.append([[v] for v in row])
    for _ in range(count):
        H, W = rng.choice([1, 2, 3, 4, 5]), rng.randrange(1, 8)
        base = gen_image(rng, H, W)
        p_inf = rng.choice([0, 0.1, 0.3])
        p_odd = rng.choice([0, 0, 0.08])
        img = []
        for y in range(H):
            r = []
            for x in range(W):
                u = rng.random()
                if u < p_inf:
                    r.append("inf")
                elif u < p_inf + p_odd:
                    r.append(rng.choice(["nan", "-inf"]))
                else:
                    r.append(base[y][x] + rng.choice([0, 0, 0, Fraction(1, 2)]))
            img.append(r)
        out.append(img)
    return out


def kernel_cross_check(ctx, report, status):
    """The REAL compiled `cross_support` on a few hundred small images against the translator's two exact readings of
    the source it translated: `pyloops.interpret` (the whole function run imperatively on the AST) and
    `pyloops.evaluate_px` (the per-pixel tree the Lean text is printed from).  A mismatch means the translator misreads
    Python -> `status.problem("translator", …)`.  The third reading, Lean's, is checked at build time by the generated
    `example`s of Generated/KernelsCbca.lean and Generated/KernelsLoopsSelfTest.lean."""
    import numpy as np
    from translator import gen_kernels_cbca, pyloops, pyloops_selftest

    try:
        k = gen_kernels_cbca.kernels()["crossSupportPx"]
    except Exception:  # Unsupported: already reported by build_and_audit (translate())  # pylint: disable=broad-except
        return
    report.translator_checks += 1
    try:
        for what in pyloops_selftest.refused_problems():
            status.problem("translator", f"pyloops self-test: a construct outside the subset is not refused — {what}")
        for what in pyloops_selftest.python_problems():
            status.problem("translator", f"pyloops self-test: the readings differ from CPython — {what}")
    except Exception as exc:  # pylint: disable=broad-except
        status.problem("translator", f"pyloops self-test crashed: {type(exc).__name__}: {exc}")
    _, cbca = ad._mods()  # pylint: disable=protected-access
    special = {"inf": np.inf, "-inf": -np.inf, "nan": np.nan}
    problems = 0
    import random

    rng = random.Random(ctx.seed * 7919 + 1411)  # its own stream: the three streams of `run` keep their cases
    for img in kernel_images(rng, ctx.n(220, 2500)):
        H, W = len(img), len(img[0])
        dist = rng.choice([1, 2, 2, 3, 4, 5, 6])
        inten = rng.choice(INTENSITIES)
        arr = np.array([[special.get(v, v) if isinstance(v, str) else float(v) for v in r] for r in img], dtype=np.float32)
        real = cbca.cross_support(arr, np.int16(dist), np.float32(float(inten))).astype(int).tolist()
        exact = pyloops.Arr([[v if isinstance(v, str) else Fraction(v) for v in r] for r in img], (H, W))
        report.count("kernel_cross_support_calls")
        try:
            whole = pyloops.interpret(k.fn, [exact, dist, inten], k.numpy_names).data
        except Exception as exc:  # pylint: disable=broad-except
            whole = f"{type(exc).__name__}: {exc}"
        try:
            px = [[list(pyloops.evaluate_px(k, [exact, dist, inten], c, r)) for r in range(W)] for c in range(H)]
            px = [[(list(v[1]) if v[0] == "ok" else v[0]) for v in row] for row in px]
            bounds = list(pyloops.evaluate_bounds(k, [exact, dist, inten]))
        except Exception as exc:  # pylint: disable=broad-except
            px, bounds = f"{type(exc).__name__}: {exc}", [H, W]
        if whole != real or px != real or bounds != [H, W]:
            problems += 1
            if problems <= 3:
                status.problem("translator", f"translated cross_support evaluates differently from the real function on image={img} "
                               f"len_arms={dist} intensity={inten}", f"real={real} interpret={whole} per_pixel={px} bounds={bounds}")


# --------------------------------------------------------------------------------------------
# the regenerated glue (translator/gen_kernels_cbca_glue.py, Generated/KernelsCbcaGlue.lean): translator cross-check
# --------------------------------------------------------------------------------------------
def glue_cross_check(ctx, report, status):
    """The REAL `cost_volume_aggregation` / `computes_cross_supports`, instrumented from outside (the module-level names
    `cross_support`, `cbca_step_2`, `cbca_step_4` of pandora.aggregation.cbca are wrapped for the duration of the call; /repo
    is not touched), against the translator's exact evaluation of what it read:
      * the shape of every array handed to `cross_support` (left, each shifted right image) vs `evaluate_crop`;
      * which shifted right support, which `range_col` / `range_col_right` lists steps 2 and 4 receive vs `iRight`,
        `facingMask`, `leftCol`, `facingCol`;
      * every cell of the aggregated volume vs `evaluate_plane` (exact fractions, one float32 rounding of the quotient),
        the margin vs the input, `cmax` vs `cmaxUpdate`.
    A mismatch means the translator misreads Python/numpy -> `status.problem("translator", …)`."""
    import random

    from translator import gen_kernels_cbca_glue as glue
    from translator import gen_kernels_cbca_steps

    try:
        ag, sup = glue.read_all()
        steps = gen_kernels_cbca_steps.kernels()
    except Exception:  # Unsupported: already reported by build_and_audit (translate())  # pylint: disable=broad-except
        return
    report.translator_checks += 1
    try:
        from translator import cbca_glue_selftest

        probs, ran, skipped = cbca_glue_selftest.problems()
        report.count("glue_selftest_entries", ran)
        for what in probs:
            status.problem("translator", f"glue reader self-test: {what}")
    except Exception as exc:  # pylint: disable=broad-except
        status.problem("translator", f"glue reader self-test crashed: {type(exc).__name__}: {exc}")
    K = glue.all_kernels(ag, sup)
    _, cbca = ad._mods()  # pylint: disable=protected-access
    rng = random.Random(ctx.seed * 104729 + 77)
    problems = []

    def problem(what, detail):
        problems.append(what)
        if len(problems) <= 3:
            status.problem("translator", f"translated glue of cbca evaluates differently from the real function: {what}", detail)

    for _ in range(ctx.n(36, 300)):
        case = gen_full_case(rng, source=rng.choice(["synthetic", "synthetic", "sad"]))
        H, W, off, subpix = case["H"], case["W"], case["off"], case["subpix"]
        disp = [frac(d) for d in case["disp"]]
        left = ad.make_image(case["imL"], case["mskL"])
        right = ad.make_image(case["imR"], case["mskR"])
        cv_in = cv_array(case)
        cvds = ad.make_cv(cv_in, [float(d) for d in disp], subpix, off)
        seen = {"cross": [], "step2": [], "step4": []}
        real = {n: getattr(cbca, n) for n in ("cross_support", "cbca_step_2", "cbca_step_4")}

        def w_cross(image, *a, _f=real["cross_support"]):
            seen["cross"].append(tuple(image.shape))
            seen.setdefault("inf", []).append(np.isinf(image).copy())
            return _f(image, *a)

        def w_step(tag, f):
            def g(first, *rest):
                seen[tag].append((rest[-3] if tag == "step2" else rest[-3], [int(v) for v in rest[-2]], [int(v) for v in rest[-1]]))
                return f(first, *rest)
            return g

        from pandora import aggregation

        obj = aggregation.AbstractAggregation(**{"aggregation_method": "cbca", "cbca_intensity": float(frac(case["intensity"])),
                                                 "cbca_distance": int(case["dist"])})
        try:
            cbca.cross_support = w_cross
            cl, cr = obj.computes_cross_supports(left, right, cvds)
            cbca.cbca_step_2 = w_step("step2", real["cbca_step_2"])
            cbca.cbca_step_4 = w_step("step4", real["cbca_step_4"])
            cross_shapes = list(seen["cross"])
            obj.cost_volume_aggregation(left, right, cvds)
        except Exception as exc:  # pylint: disable=broad-except
            report.count("glue_real_function_raised")
            report.notes.append(f"glue cross-check: the real function raised {type(exc).__name__}: {exc}"[:200])
            continue
        finally:
            for n, f in real.items():
                setattr(cbca, n, f)
        report.count("glue_cost_volume_aggregation_calls")
        out = np.array(cvds["cost_volume"].data)
        # ---- crops of computes_cross_supports
        want = [glue.evaluate_crop(K, "leftCrop", H, W, off)[2:]]
        for k in range(subpix):
            want.append(glue.evaluate_crop(K, "rightCrop", H, W if k == 0 else W - 1, off, k)[2:])
        if [tuple(s) for s in cross_shapes] != [tuple(s) for s in want]:
            problem("shapes of the arrays handed to cross_support", f"case H={H} W={W} off={off} subpix={subpix}: real {cross_shapes} translated {want}")
        # ---- which pixels are +inf in the arrays handed to cross_support: the translated meaning of the mask statements
        SK = sup["kernels"]
        offs = sup["meaning"].get("shiftMaskOffsets", [])

        def masked_pattern(msk, side, k, width):
            pat = np.zeros((H, width), dtype=bool)
            if msk is None:
                return pat
            for y in range(H):
                for x in range(width):
                    if side == "left":
                        pat[y, x] = glue.ev_scalar(SK["leftMaskGuard"], True) and glue.ev_scalar(SK["leftMaskTest"], int(msk[y][x]), 0, 1)
                    else:
                        a = glue.ev_scalar(SK["rightMaskGuard"], True, k) and glue.ev_scalar(SK["rightMaskTest"], int(msk[y][x]), 0, 1)
                        b = glue.ev_scalar(SK["shiftMaskGuard"], True, k) and any(
                            glue.ev_scalar(SK["shiftMaskTest"], int(msk[y + dy][x + dx]), 0, 1) for dy, dx in offs)
                        pat[y, x] = a or b
            return pat

        infs = seen.get("inf", [])[:len(cross_shapes)]
        preds = []
        box = glue.evaluate_crop(K, "leftCrop", H, W, off)
        preds.append(masked_pattern(case["mskL"], "left", 0, W)[box[0]:box[0] + box[2], box[1]:box[1] + box[3]])
        for k in range(subpix):
            wk = W if k == 0 else W + sup["meaning"].get("shiftMaskWidthDelta", -1)
            box = glue.evaluate_crop(K, "rightCrop", H, wk, off, k)
            preds.append(masked_pattern(case["mskR"], "right", k, wk)[box[0]:box[0] + box[2], box[1]:box[1] + box[3]])
        for i, (real_inf, pred) in enumerate(zip(infs, preds)):
            report.count("glue_prepared_images")
            if real_inf.shape != pred.shape or not np.array_equal(real_inf, pred):
                problem("masked (+inf) pixels of an image handed to cross_support", f"image {i} (0 = left, then the shifts): real {real_inf.astype(int).tolist()} translated {pred.astype(int).tolist()}")
        # ---- the volume the loop works on, and where the result goes
        r0, c0, h, w = glue.evaluate_crop(K, "cvCrop", H, W, off)
        wb = glue.evaluate_crop(K, "writeBack", H, W, off)
        cl_l = np.array(cl).astype(int).tolist()
        cr_l = [np.array(c).astype(int).tolist() for c in cr]
        for k, d in enumerate(disp):
            sel = glue.ev_scalar(K["iRight"], d, subpix)
            if k < len(seen["step2"]):
                arr, rc, rcr = seen["step2"][k]
                wr = len(cr_l[sel][0]) if 0 <= sel < len(cr_l) and cr_l[sel] else 0
                idx = [x for x in range(w) if glue.ev_scalar(K["facingMask"], x, d, wr)]
                t_rc = [glue.ev_scalar(K["leftCol"], x, d) for x in idx]
                t_rcr = [glue.ev_scalar(K["facingCol"], x, d) for x in idx]
                which = [i for i, c in enumerate(cr) if c.shape == arr.shape and np.array_equal(c, arr)]
                if sel not in which or rc != t_rc or rcr != t_rcr or seen["step4"][k][1:] != (rc, rcr) or not np.array_equal(seen["step4"][k][0], arr):
                    problem("wiring of cbca_step_2 / cbca_step_4", f"disp {d} subpix {subpix}: real support {which} cols {rc} {rcr}; translated {sel} {t_rc} {t_rcr}")
                    continue
            cvp = [[NANV if math.isnan(cv_in[r0 + y, c0 + x, k]) else Fraction(float(cv_in[r0 + y, c0 + x, k])) for x in range(w)] for y in range(h)]
            aggp = [[glue.evaluate_init(ag, cvp[y][x]) for y in range(h)] for x in range(w)]
            res, plane = glue.evaluate_plane(ag, steps, cvp, aggp, cl_l, cr_l, d, subpix)
            report.count("glue_planes")
            if res != "ok":
                problem("one iteration of the disparity loop", f"disp {d}: translated reading ends in {res}, the real function returned")
                continue
            for y in range(H):
                for x in range(W):
                    inside = wb[0] <= y < wb[0] + wb[2] and wb[1] <= x < wb[1] + wb[3]
                    if inside:
                        q = plane[x - wb[1]][y - wb[0]]
                        exp = np.float32(np.nan) if q == NANV else np.float32(q.numerator) / np.float32(q.denominator)
                    else:
                        exp = cv_in[y, x, k]
                    if not same_f32(out[y, x, k], exp):
                        problem("aggregated cell", f"cell ({y},{x}) disp {d}: real {out[y, x, k]} translated {exp}; case H={H} W={W} off={off} subpix={subpix}")
                        break
                else:
                    continue
                break
        cmax = glue.ev_scalar(K["cmaxUpdate"], Fraction(100), int(case["dist"]))
        if Fraction(float(cvds.attrs["cmax"])) != cmax:
            problem("cmax", f"real {cvds.attrs['cmax']} translated {cmax}")
    if problems:
        report.count("glue_cross_check_problems", len(problems))


NANV = "nan"


# --------------------------------------------------------------------------------------------
# generators
# --------------------------------------------------------------------------------------------
def gen_image(rng, H, W, lo=0, hi=40):
    style = rng.choice(["uniform", "vstep", "hstep", "blocks", "noise", "ramp", "noise"])
    base = rng.randrange(lo, hi)
    img = [[base for _ in range(W)] for _ in range(H)]
    if style == "vstep":
        c = rng.randrange(0, W + 1)
        s = rng.choice([1, 2, 3, 5, 10, 11, 30])
        for y in range(H):
            for x in range(c, W):
                img[y][x] = base + s
    elif style == "hstep":
        r = rng.randrange(0, H + 1)
        s = rng.choice([1, 2, 3, 5, 10, 11, 30])
        for y in range(r, H):
            for x in range(W):
                img[y][x] = base + s
    elif style == "blocks":
        for _ in range(rng.randrange(1, 4)):
            y0, x0 = rng.randrange(H), rng.randrange(W)
            y1, x1 = rng.randrange(y0, H) + 1, rng.randrange(x0, W) + 1
            v = rng.randrange(lo, hi + 30)
            for y in range(y0, y1):
                for x in range(x0, x1):
                    img[y][x] = v
    elif style == "noise":
        amp = rng.choice([1, 2, 4, 12, 40])
        img = [[base + rng.randrange(0, amp + 1) for _ in range(W)] for _ in range(H)]
    elif style == "ramp":
        k = rng.choice([1, 2, 3])
        img = [[base + k * x + (y % 2) for x in range(W)] for y in range(H)]
    if rng.random() < 0.4:  # a few outliers (what the median pre-filter is for)
        for _ in range(rng.randrange(1, 4)):
            img[rng.randrange(H)][rng.randrange(W)] += rng.choice([-7, 9, 35])
    return img


def gen_mask(rng, H, W, p_none=0.35):
    """None, or a mask with invalid blobs (values 1/2; valid_pixels = 0) touching borders and each other."""
    if rng.random() < p_none:
        return None
    m = [[0] * W for _ in range(H)]
    for _ in range(rng.randrange(0, 4)):
        kind = rng.choice(["cell", "cell", "row", "col", "blob", "corner"])
        v = rng.choice([1, 1, 2, 5])
        if kind == "cell":
            m[rng.randrange(H)][rng.randrange(W)] = v
        elif kind == "row":
            y = rng.choice([0, H - 1, rng.randrange(H)])
            for x in range(rng.randrange(W), W):
                m[y][x] = v
        elif kind == "col":
            x = rng.choice([0, W - 1, rng.randrange(W)])
            for y in range(rng.randrange(H), H):
                m[y][x] = v
        elif kind == "blob":
            y0, x0 = rng.randrange(H), rng.randrange(W)
            for y in range(y0, min(H, y0 + 2)):
                for x in range(x0, min(W, x0 + 2)):
                    m[y][x] = v
        else:
            m[rng.choice([0, H - 1])][rng.choice([0, W - 1])] = v
    return m


def gen_arms_case(rng, big=False):
    H = rng.choice([1, 1, 2, 3, 4, 5, 6]) if not big else rng.randrange(1, 9)
    W = rng.randrange(1, 10) if not big else rng.randrange(1, 14)
    img = gen_image(rng, H, W)
    msk = gen_mask(rng, H, W, p_none=0.25)
    image = [[None if (msk is not None and msk[y][x] != 0) else img[y][x] + rng.choice([0, 0, 0, Fraction(1, 2)])
              for x in range(W)] for y in range(H)]
    return {"kind": "arms", "H": H, "W": W, "image": [[None if v is None else str(Fraction(v)) for v in r] for r in image],
            "dist": rng.choice([1, 1, 2, 2, 3, 4, 5, 6, 9]), "intensity": str(rng.choice(INTENSITIES))}


def gen_steps_case(rng):
    H = rng.randrange(1, 8)
    W = rng.randrange(1, 10)
    subpix = rng.choice([1, 1, 2, 4])
    shifted = subpix > 1 and rng.random() < 0.6
    Wr = W - 1 if shifted else W
    if Wr < 1:
        Wr, shifted = W, False
    frac = Fraction(rng.randrange(1, subpix), subpix) if shifted else Fraction(0)
    d = rng.randrange(-W - 1, W + 2) + frac
    dist = rng.randrange(1, 6)

    def arms(width, in_image):
        out = []
        for y in range(H):
            row = []
            for x in range(width):
                a = [rng.randrange(0, dist + 1) for _ in range(4)]
                if in_image:
                    a = [min(a[0], x), min(a[1], width - 1 - x), min(a[2], y), min(a[3], H - 1 - y)]
                row.append(a)
            out.append(row)
        return out

    cv = [[None if rng.random() < 0.2 else rng.randrange(0, 60) for _ in range(W)] for _ in range(H)]
    if rng.random() < 0.3:  # a NaN row / column
        y = rng.randrange(H)
        cv[y] = [None] * W
    return {"kind": "steps", "H": H, "W": W, "Wr": Wr, "d": str(d), "cv": cv, "armsL": arms(W, True), "armsR": arms(Wr, rng.random() < 0.7)}


def facing(x, d, wr):
    c = x + d
    return 0 <= c < wr


MC_RAISED = {"n": 0}


def gen_full_case(rng, source=None, big=False):
    source = source or rng.choice(["synthetic", "synthetic", "sad", "sad", "census"])
    subpix = rng.choice([1, 1, 2, 4])
    off = 0
    window = 1
    if source != "synthetic":
        window = rng.choice([1, 3]) if source == "sad" else rng.choice([3, 5])
        off = window // 2
    elif rng.random() < 0.3:
        off = rng.choice([1, 2])
    hmin = 3 + 2 * off
    H = rng.randrange(hmin, hmin + (7 if not big else 10))
    W = rng.randrange(hmin + (1 if subpix > 1 else 0), hmin + (9 if not big else 14))
    imL = gen_image(rng, H, W)
    if rng.random() < 0.6:  # right = left shifted by a constant disparity plus a little noise
        s = rng.randrange(-2, 3)
        imR = [[imL[y][min(max(x + s, 0), W - 1)] + (rng.choice([0, 0, 0, 1]) if rng.random() < 0.3 else 0) for x in range(W)]
               for y in range(H)]
    else:
        imR = gen_image(rng, H, W)
    mskL = gen_mask(rng, H, W)
    mskR = gen_mask(rng, H, W)
    dist = rng.choice([1, 2, 2, 3, 3, 4, 5, 6])
    intensity = rng.choice(INTENSITIES)
    case = {"kind": "full", "source": source, "H": H, "W": W, "off": off, "subpix": subpix, "imL": imL, "imR": imR,
            "mskL": mskL, "mskR": mskR, "dist": dist, "intensity": str(intensity)}
    if source == "synthetic":
        dmin = rng.randrange(-3, 2)
        nd = rng.randrange(1, 4 if subpix > 1 else 6)
        disp = [Fraction(dmin) + Fraction(k, subpix) for k in range((nd - 1) * subpix + 1)]
        respect = rng.random() < 0.8  # NaN where no facing right column (what matching cost produces)
        cv = []
        for y in range(H):
            row = []
            for x in range(W):
                cell = []
                for d in disp:
                    margin = not (off <= y < H - off and off <= x < W - off)
                    wr = (W if d.denominator == 1 else W - 1)
                    nofacing = not facing(x, d, wr)
                    lm = mskL is not None and mskL[y][x] != 0
                    if margin or (respect and nofacing) or (lm and rng.random() < 0.8) or rng.random() < 0.08:
                        cell.append(None)
                    else:
                        cell.append(rng.randrange(0, 50))
                row.append(cell)
            cv.append(row)
        case["disp"] = [str(d) for d in disp]
        case["cv"] = cv
    else:
        dmin = rng.randrange(-3, 2)
        dmax = dmin + rng.randrange(0, 3 if subpix > 1 else 4)
        left = ad.make_image(imL, mskL)
        right = ad.make_image(imR, mskR)
        try:
            _, cvds = ad.matching_cost_cv(left, right, dmin, dmax, source, window, subpix)
        except Exception:  # pylint: disable=broad-except
            # the matching-cost step itself refuses / crashes on some interval-vs-width combinations (not C11's
            # subject): fall back to a synthetic volume, and say so in the evidence
            MC_RAISED["n"] += 1
            return gen_full_case(rng, source="synthetic", big=big)
        off_real = int(cvds.attrs["offset_row_col"])
        case["off"] = off_real
        data = cvds["cost_volume"].data
        case["disp"] = [str(Fraction(float(d))) for d in cvds.coords["disp"].data]
        case["cv"] = [[[None if math.isnan(v) else str(Fraction(float(v))) for v in cell] for cell in row] for row in data]
    return case


# --------------------------------------------------------------------------------------------
# helpers
# --------------------------------------------------------------------------------------------
def frac(s):
    return Fraction(s) if not isinstance(s, Fraction) else s


def wire_val(v):
    if v is None:
        return "nan"
    return core.enc(Fraction(v))


def f32_div(cell):
    """model/spec cell ("nan" or [sum, count]) -> the float32 the implementation must hold"""
    if cell == "nan":
        return np.float32(np.nan)
    s, n = cell
    s = core.dec(s)
    fs = np.float32(float(s))
    if Fraction(float(fs)) != s:
        raise ValueError(f"sum {s} not exact in float32")
    if n == 0:
        return np.float32(np.nan)
    return np.float32(fs / np.float32(n))


def same_f32(a, b):
    a = np.float32(a)
    b = np.float32(b)
    return (np.isnan(a) and np.isnan(b)) or a == b


def arm_trigger(dist, bad):
    if dist == 1 and bad.get("neighbour_masked") and bad.get("sub") == "stop_masked" and bad.get("given") == 1:
        return "distance_one_masked_neighbour"
    return f"{bad.get('sub')}_{bad.get('side')}"


def fail(report, clause, trigger, case, impl=None, detail=""):
    """`report.fail`, but at most 3 failures per (clause, trigger): a known finding that fires on many cases
    must not fill the report's cap and hide a different failure"""
    n = sum(1 for f in report.failures if f["clause"] == clause and f["trigger"] == trigger)
    report.count(f"spec_failure:{clause}:{trigger}")
    if n < 3:
        report.fail(clause, trigger, case, impl, detail)


# --------------------------------------------------------------------------------------------
# the three checks
# --------------------------------------------------------------------------------------------
def check_arms(ctx, report, case, label, rule):
    H, W, dist = case["H"], case["W"], case["dist"]
    inten = frac(case["intensity"])
    image = [[None if v is None else float(Fraction(v)) for v in r] for r in case["image"]]
    try:
        impl = ad.cross_support(image, dist, float(inten))
    except Exception as exc:  # pylint: disable=broad-except
        report.case(key=("arms", json.dumps(case, sort_keys=True)), nontrivial=True)
        fail(report, "arms", f"raises_{type(exc).__name__}", case, None, f"cross_support raised {type(exc).__name__}: {exc}")
        return
    impl_l = impl.tolist()
    m = ctx.lean.call("C11.cross_support", H=H, W=W, dist=dist, intensity=core.enc(inten), rule=rule,
                      image=[[wire_val(v) for v in r] for r in case["image"]], impl=impl_l)
    masked = sum(v is None for r in case["image"] for v in r)
    report.case(key=("arms", json.dumps(case, sort_keys=True)), nontrivial=H * W > 1,
                sample={"case": case, "impl_arms_row0": impl_l[0]} if label == "rnd" else None)
    report.count("arms_cases")
    report.count(f"arms_dist_{min(dist, 7)}")
    if masked:
        report.count("arms_with_masked_pixels")
    for k, v in m["reasons"].items():
        if v:
            report.hit("arms:" + k, v)
    if impl_l != m["coded"]:
        report.disagree("cross_support", case, impl_l, m["coded"])
    if not m["in_image"]:
        report.disagree("cross_support_model_arms_leave_image", case, impl_l, m["coded"])
    for b in m["bad"]:
        fail(report, "arms", arm_trigger(dist, b), case, impl_l, json.dumps(b))


def check_steps(ctx, report, case, label):
    H, W = case["H"], case["W"]
    d = frac(case["d"])
    cv = np.array([[np.nan if v is None else float(v) for v in r] for r in case["cv"]], dtype=np.float32).reshape(H, W)
    aL = np.array(case["armsL"], dtype=np.int16).reshape(H, W, 4)
    aR = np.array(case["armsR"], dtype=np.int16).reshape(H, case["Wr"], 4)
    try:
        impl = ad.steps(cv, aL, aR, float(d))
    except Exception as exc:  # pylint: disable=broad-except
        report.case(key=("steps", json.dumps(case, sort_keys=True)), nontrivial=True)
        fail(report, "sum_over_region", f"raises_{type(exc).__name__}", case, None, f"cbca steps raised {type(exc).__name__}: {exc}")
        return
    m = ctx.lean.call("C11.steps", H=H, W=W, Wr=case["Wr"], d=core.enc(d), cv=[[wire_val(v) for v in r] for r in case["cv"]],
                      armsL=case["armsL"], armsR=case["armsR"])
    report.case(key=("steps", json.dumps(case, sort_keys=True)), nontrivial=True,
                sample={"case": case} if label == "rnd" and report.distribution.get("steps_cases", 0) < 1 else None)
    report.count("steps_cases")
    if not m["arms_in_image"]:
        report.disagree("steps_generator_arms_outside_image", case, None, None)
        return
    impl_out = {k: core.enc(impl[k].astype(np.float64)) for k in ("step2", "sum2", "step4", "sum4")}
    for k in ("step2", "sum2", "step4", "sum4"):
        if impl_out[k] != m[k]:
            report.disagree(f"cbca_{k}", case, impl_out[k], m[k])
    nfacing = 0
    for y in range(H):
        for x in range(W):
            if not m["facing"][y][x]:
                continue
            nfacing += 1
            trig = f"steps_{'shifted' if case['Wr'] != W else 'pixel'}"
            if impl_out["sum2"][y][x] != m["spec_h"][y][x]:
                fail(report, "region_combined_min_arms", trig, case, impl_out, f"cell ({y},{x}) horizontal arms {impl_out['sum2'][y][x]} expected {m['spec_h'][y][x]}")
            if impl_out["sum4"][y][x] != m["spec_count"][y][x]:
                fail(report, "divided_by_region_size", trig, case, impl_out, f"cell ({y},{x}) count {impl_out['sum4'][y][x]} region has {m['spec_count'][y][x]} pixels")
            if impl_out["step4"][y][x] != m["spec_sum"][y][x]:
                fail(report, "sum_over_region", trig, case, impl_out, f"cell ({y},{x}) sum {impl_out['step4'][y][x]} region sum {m['spec_sum'][y][x]}")
    if nfacing:
        report.hit("sum_over_region", nfacing)
        report.hit("divided_by_region_size", nfacing)
        report.hit("region_combined_min_arms", nfacing)


def full_payload(case, rule):
    return dict(H=case["H"], W=case["W"], off=case["off"], imL=case["imL"], imR=case["imR"], mskL=case["mskL"], mskR=case["mskR"],
                validL=0, validR=0, dist=case["dist"], intensity=core.enc(frac(case["intensity"])), subpix=case["subpix"],
                disp=[core.enc(frac(d)) for d in case["disp"]],
                cv=[[[wire_val(v) for v in cell] for cell in row] for row in case["cv"]], rule=rule)


def cv_array(case):
    return np.array([[[np.nan if v is None else float(Fraction(v)) for v in cell] for cell in row] for row in case["cv"]],
                    dtype=np.float32)


def full_trigger(case, cell_ok_with_coded_arms):
    masked = case["mskL"] is not None or case["mskR"] is not None
    if case["dist"] == 1 and masked and cell_ok_with_coded_arms:
        return "distance_one_masked_neighbour"
    return f"{'masked' if masked else 'nomask'}_subpix{case['subpix']}_off{case['off']}"


def check_full(ctx, report, case, label, rule, independence=False, direct=False):
    H, W, off = case["H"], case["W"], case["off"]
    dist = case["dist"]
    inten = frac(case["intensity"])
    disp = [frac(d) for d in case["disp"]]
    left = ad.make_image(case["imL"], case["mskL"])
    right = ad.make_image(case["imR"], case["mskR"])
    cv_in = cv_array(case)
    cvds = ad.make_cv(cv_in, [float(d) for d in disp], case["subpix"], off)
    try:
        out, cl, cr = ad.aggregate(left, right, cvds, dist, float(inten))
    except Exception as exc:  # the real code raised on a well-formed input: no aggregated cost at all  # pylint: disable=broad-except
        report.case(key=("full", json.dumps(case, sort_keys=True)), nontrivial=True)
        fail(report, "sum_over_region", f"raises_{type(exc).__name__}", case, None, f"cost_volume_aggregation raised {type(exc).__name__}: {exc}")
        return
    payload = full_payload(case, rule)
    m = ctx.lean.call("C11.aggregate", implL=cl.tolist(), implR=[c.tolist() for c in cr], **payload)
    h, w = m["h"], m["w"]
    report.case(key=("full", json.dumps(case, sort_keys=True)), nontrivial=True,
                sample={"case": {k: case[k] for k in ("H", "W", "off", "subpix", "dist", "intensity", "disp", "source")},
                        "impl_plane0_row0": core.enc(out[off, :, 0].astype(np.float64))} if label == "rnd" else None)
    report.count("full_cases")
    report.count(f"full_source_{case.get('source', 'synthetic')}")
    report.count(f"full_subpix_{case['subpix']}")
    report.count(f"full_off_{off}")
    report.count(f"full_dist_{min(dist, 7)}")
    if case["mskL"] is not None or case["mskR"] is not None:
        report.count("full_with_mask")
    for k, v in m["reasons"].items():
        if v:
            report.hit("arms:" + k, v)
    # ---- cross supports: correspondence and specification
    if cl.tolist() != m["armsL"]:
        report.disagree("computes_cross_supports.left", case, cl.tolist(), m["armsL"])
    if [c.tolist() for c in cr] != m["armsR"]:
        report.disagree("computes_cross_supports.right", case, [c.tolist() for c in cr], m["armsR"])
    for b in m["bad_arms"]:
        fail(report, "arms", arm_trigger(dist, b), case, {"cross_left": cl.tolist()}, json.dumps(b))
    # ---- margin untouched
    for y in range(H):
        for x in range(W):
            if off <= y < H - off and off <= x < W - off:
                continue
            for k in range(len(disp)):
                if not same_f32(out[y, x, k], cv_in[y, x, k]):
                    fail(report, "nan_stays" if np.isnan(cv_in[y, x, k]) else "sum_over_region", "margin_changed", case,
                                core.enc(out.astype(np.float64)), f"cell ({y},{x},{k}) of the margin changed")
    # ---- cells
    n_nan = n_num = n_out = 0
    for k in range(len(disp)):
        pl = m["planes"][k]
        for y in range(h):
            for x in range(w):
                v = out[y + off, x + off, k]
                vin = cv_in[y + off, x + off, k]
                try:
                    em = f32_div(pl["model"][y][x])
                    es = f32_div(pl["spec"][y][x])
                    ec = f32_div(pl["spec_coded_arms"][y][x])
                except ValueError as exc:
                    report.notes.append(f"inexact case skipped: {exc}")
                    return
                if not same_f32(v, em):
                    report.disagree("aggregated_cell", {"case": case, "cell": [y + off, x + off, k]}, core.enc(float(v)), pl["model"][y][x])
                if np.isnan(vin):
                    n_nan += 1
                    if not np.isnan(v):
                        fail(report, "nan_stays", full_trigger(case, False), case, core.enc(out.astype(np.float64)),
                                    f"cell ({y + off},{x + off},{k}) was NaN, is {v}")
                    continue
                if np.isnan(v):
                    fail(report, "no_new_nan", full_trigger(case, False), case, core.enc(out.astype(np.float64)),
                                f"cell ({y + off},{x + off},{k}) was {vin}, is NaN")
                    continue
                if not pl["facing"][x]:
                    n_out += 1  # finite cost without a facing right column: outside the theorem's hypothesis, see DESIGN_NOTES
                    continue
                n_num += 1
                if not same_f32(v, es):
                    fail(report, "sum_over_region", full_trigger(case, same_f32(v, ec)), case, core.enc(out.astype(np.float64)),
                                f"cell ({y + off},{x + off},{k}) is {v}; region sum/count = {pl['spec'][y][x]}")
    report.hit("nan_stays", n_nan)
    report.hit("no_new_nan", n_num)
    report.hit("sum_over_region", n_num)
    report.hit("divided_by_region_size", n_num)
    if n_out:
        report.count("finite_cost_without_facing_column_cells", n_out)
        if case.get("source", "synthetic") != "synthetic":
            report.notes.append("matching cost produced a finite cost without facing right column (hypothesis nanOutside not met by the pipeline)")
            report.count("pipeline_cells_outside_hypothesis", n_out)
    # ---- each plane is aggregated independently of the others (metamorphic, on the implementation)
    if independence and len(disp) > 1:
        rng = ctx.rng
        keep = rng.randrange(len(disp))
        cv2 = cv_in.copy()
        for k in range(len(disp)):
            if k != keep:
                mode = rng.choice(["nan", "perm", "rand"])
                if mode == "nan":
                    cv2[off:H - off, off:W - off, k] = np.nan
                elif mode == "perm":
                    cv2[:, :, k] = cv2[::-1, ::-1, k]
                else:
                    cv2[off:H - off, off:W - off, k] = np.float32(rng.randrange(0, 90))
        try:
            out2, _, _ = ad.aggregate(left, right, ad.make_cv(cv2, [float(d) for d in disp], case["subpix"], off), dist, float(inten))
        except Exception as exc:  # pylint: disable=broad-except
            fail(report, "plane_independent", f"raises_{type(exc).__name__}", case, None, f"re-run raised {exc}")
            return
        report.hit("plane_independent")
        a, b = out[:, :, keep], out2[:, :, keep]
        if not np.array_equal(a, b, equal_nan=True):
            fail(report, "plane_independent", f"other_planes_changed_subpix{case['subpix']}", case, core.enc(out2.astype(np.float64)),
                        f"plane {keep} changed when the other planes were modified")
    # ---- the tabulated driver path equals the literal definition `aggregate`
    if direct:
        rng = ctx.rng
        cells = [[rng.randrange(H), rng.randrange(W), rng.randrange(len(disp))] for _ in range(6)]
        res = ctx.lean.call("C11.aggregate_direct", cells=cells, **payload)
        for (y, x, k), r in zip(cells, res):
            if r["in_area"]:
                if r["cell"] != m["planes"][k]["model"][y - off][x - off]:
                    report.disagree("driver_tabulation_vs_definition", {"case": case, "cell": [y, x, k]}, r["cell"], m["planes"][k]["model"][y - off][x - off])
            elif r["value"] != wire_val(case["cv"][y][x][k]):
                report.disagree("driver_margin_vs_definition", {"case": case, "cell": [y, x, k]}, r["value"], wire_val(case["cv"][y][x][k]))
        report.count("direct_definition_cells", len(cells))


def check_case(ctx, report, case, label, rule, **kw):
    kind = case.get("kind", "full")
    if kind == "arms":
        check_arms(ctx, report, case, label, rule)
    elif kind == "steps":
        check_steps(ctx, report, case, label)
    else:
        check_full(ctx, report, case, label, rule, **kw)


# --------------------------------------------------------------------------------------------
# directed cases (always run first)
# --------------------------------------------------------------------------------------------
def directed_arms():
    out = []
    rows = [[1, 1, None, 1, 1], [1, 1, 1, 1, 1, 1, 1, 1], [1, 7, 1, 1, 7, 7, 1], [None, 1, 1, None], [1, None], [None, 1], [1],
            [0, 5, 10, 15, 20, 25], [3, 3, 8, 3, 3], [1, 1, 1, None, None, 1, 1, 1]]
    for row in rows:
        for dist in (1, 2, 3, 5):
            for inten in ("5", "1/2", "30"):
                img = [[None if v is None else str(v) for v in row]]
                out.append({"kind": "arms", "H": 1, "W": len(row), "image": img, "dist": dist, "intensity": inten})
                col = [[v] for v in img[0]]
                out.append({"kind": "arms", "H": len(row), "W": 1, "image": col, "dist": dist, "intensity": inten})
    # arms longer than 255 / 32767 would not fit a narrower storage type (seed C11-4): long smooth lines, large cbca_distance
    for n, dist in ((300, 280), (330, 300), (270, 1000)):
        row = [str(5 + (i % 2)) for i in range(n)]
        row[n // 3] = None if n == 330 else row[n // 3]
        out.append({"kind": "arms", "H": 1, "W": n, "image": [row], "dist": dist, "intensity": "5"})
        out.append({"kind": "arms", "H": n, "W": 1, "image": [[v] for v in row], "dist": dist, "intensity": "5"})
    return out


# --------------------------------------------------------------------------------------------
# entry points
# --------------------------------------------------------------------------------------------
def run(ctx, report, status):
    rule = source_rule(report, status)
    report.count(f"source_min_rule_{rule}")
    report.rule = (
        "three streams on the real code: (arms) cross_support on 1-8 x 1-13 integer/half-integer images with masked (inf) blobs, "
        "distances 1-9, dyadic intensities around the planted steps; (steps) cbca_step_1..4 with arbitrary in-image arm arrays, NaN "
        "rows, pixel and shifted right widths, disparities beyond the image; (full) AbstractAggregation(cbca).cost_volume_aggregation "
        "on 3-14 x 3-18 pairs with left/right masks touching borders, subpix 1/2/4, window offsets 0-2, synthetic integer cost "
        "volumes and the output of the real sad/census matching cost; plus a metamorphic re-run with the other planes modified. "
        "non-trivial = more than one pixel; distinct by the full input"
    )
    rng = ctx.rng
    kernel_cross_check(ctx, report, status)
    steps_kernels.cross_check(ctx, report, status, ctx.n(120, 1500))  # cbca_step_1..4 regenerated (T14, array-state kernels)
    glue_cross_check(ctx, report, status)  # the numpy glue regenerated (Generated/KernelsCbcaGlue.lean)
    for name, case in core.load_corpus(PROP):
        check_case(ctx, report, case.get("input", case), "corpus:" + name, rule, independence=True)
    for case in directed_arms():
        check_arms(ctx, report, case, "directed", rule)
    for _ in range(ctx.n(300, 10000)):
        check_arms(ctx, report, gen_arms_case(rng, big=ctx.thorough), "rnd", rule)
    for _ in range(ctx.n(150, 5000)):
        check_steps(ctx, report, gen_steps_case(rng), "rnd")
    n_full = ctx.n(110, 3500)
    for i in range(n_full):
        case = gen_full_case(rng, big=ctx.thorough and i % 3 == 0)
        check_full(ctx, report, case, "rnd", rule, independence=(i % 3 == 0), direct=(i % 10 == 0))
    if MC_RAISED["n"]:
        report.count("matching_cost_raised_fallback_to_synthetic", MC_RAISED["n"])
    # the replay of a violation should not be cluttered by the known finding F9: report a failing input with
    # cbca_distance >= 2 first when there is one (stable sort)
    report.failures.sort(key=lambda f: 1 if isinstance(f["case"], dict) and f["case"].get("dist") == 1 else 0)
    if ctx.thorough:  # a strip crossing the 100-pixel chunk of the median pre-filter
        for _ in range(3):
            check_full(ctx, report, gen_wide_case(rng), "wide", rule)
            report.count("full_wide_104_columns")


def gen_wide_case(rng):
    H, W = 4, 104
    imL = gen_image(rng, H, W)
    imR = gen_image(rng, H, W)
    disp = [Fraction(-1), Fraction(0)]
    cv = [[[None if (rng.random() < 0.05 or not facing(x, d, W)) else rng.randrange(0, 30) for d in disp] for x in range(W)] for y in range(H)]
    return {"kind": "full", "source": "synthetic", "H": H, "W": W, "off": 0, "subpix": 1, "imL": imL, "imR": imR, "mskL": gen_mask(rng, H, W),
            "mskR": None, "dist": 4, "intensity": "5", "disp": [str(d) for d in disp], "cv": cv}


def search(ctx, report, status):
    """Directed search after a broken obligation or a disagreement: the same streams, more cases, the Lean
    specification (`armRef`, `specSum/specCount`) as oracle on the implementation's outputs."""
    rule = source_rule()
    sub = core.Report(PROP, ctx.tier, ctx.seed)
    known = {(k.get("clause"), k.get("trigger")) for k in core.load_known(PROP)}

    def first_unknown():
        for f in sub.failures:
            if (f["clause"], f["trigger"]) not in known:
                return f
        return None

    for d in report.disagreements:  # the disagreeing cases first
        case = d["case"].get("case", d["case"]) if isinstance(d["case"], dict) else None
        if case and "kind" in case:
            check_case(ctx, sub, case, "search", rule)
            if first_unknown():
                return first_unknown()
    for case in directed_arms():
        check_arms(ctx, sub, case, "search", rule)
    if first_unknown():
        return first_unknown()
    rng = ctx.rng
    for i in range(400):
        check_arms(ctx, sub, gen_arms_case(rng, big=True), "search", rule)
        check_steps(ctx, sub, gen_steps_case(rng), "search")
        if i % 2 == 0:
            check_full(ctx, sub, gen_full_case(rng), "search", rule, independence=True)
        if first_unknown():
            return first_unknown()
    return None


def replay(ctx, report, path):
    with open(path, encoding="utf-8") as f:
        data = json.load(f)
    case = data.get("input", data)
    if isinstance(case, dict) and "case" in case and "kind" not in case:
        case = case["case"]
    rule = source_rule()
    check_case(ctx, report, case, "replay", rule, independence=True)
    known = {(k.get("clause"), k.get("trigger")) for k in core.load_known(PROP)}
    unknown = [fl for fl in report.failures if (fl["clause"], fl["trigger"]) not in known]
    for fl in report.failures[:10]:
        tag = "known finding" if (fl["clause"], fl["trigger"]) in known else "spec failure"
        print(f"{tag}:", fl["clause"], fl["trigger"], fl["detail"][:300])
    for d in report.disagreements[:5]:
        print("disagreement:", json.dumps(d, default=str)[:600])
    print("replayed: failures=%d (known %d) disagreements=%d" % (len(report.failures), len(report.failures) - len(unknown), len(report.disagreements)))
    return 1 if unknown else 0  # exit 1 iff a failure that is not a listed known finding reproduces
