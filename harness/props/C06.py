"""C06 — refinement moves a disparity by at most half a sample, never for the worse.

Correspondence: the real `AbstractRefinement.subpixel_refinement` (numba `loop_refinement` + `Vfit` /
`Quadratic.refinement_method`) against the Lean model `Pandora.Refinement.loopRefinement`, pixel by
pixel; the Lean specification `Pandora.Refinement.clauses` is evaluated on the implementation's outputs.

Streams: (1) exhaustive cost triples over {0,1,2,3,NaN}^3 x every position of the sample in a 5-sample
interval x method x measure x subpix; (2) random maps (integer / tied / dyadic-float costs, NaN holes,
per-pixel intervals, invalid pixels, preset bit 3, off-grid disparities as a filter leaves them);
(3) repeated refinement (the output of one step is the input of the next); (4) real pipelines through
`pandora.run` (matching cost -> disparity -> [filter] -> refinement [-> refinement.1]) with the step observed.
"""
from __future__ import annotations

import hashlib
import itertools
import json
from fractions import Fraction

from .. import core
from ..impl import refine_adapter as ra

PROP = "C06"
VARIANT = {"flat": False, "or": False, "ends": False}  # which repairs the implementation carries (detect_variant)
ALPHABET = [0, 1, 2, 3, "nan"]
INVALID_MASK = 963
TOL_SCALE = Fraction(1, 2**14)  # relative float32 error bound used for every numeric comparison


def translate():
    from translator import registry

    return registry.generate("Constants", "RefineCC", "Kernels", "KernelsRefine")


# ------------------------------------------------------------------------------------------------
# helpers
# ------------------------------------------------------------------------------------------------
def frac(v):
    """wire value -> Fraction or None for NaN"""
    if v is None or v == "nan":
        return None
    if isinstance(v, str):
        return Fraction(v)
    return Fraction(v)


def wire(q):
    if q is None:
        return "nan"
    q = Fraction(q)
    return q.numerator if q.denominator == 1 else f"{q.numerator}/{q.denominator}"


def case_tol(case):
    m = Fraction(0)
    for row in case["cv"]:
        for cell in row:
            for v in cell:
                q = frac(v)
                if q is not None and abs(q) > m:
                    m = abs(q)
    return TOL_SCALE * (1 + m)


def dvals_of(case):
    s = int(case["subpix"])
    lo, hi = int(case["dmin"]), int(case["dmax"])
    return [Fraction(lo) + Fraction(k, s) for k in range((hi - lo) * s + 1)]


def key_of(case):
    return hashlib.sha1(json.dumps(case, sort_keys=True).encode()).hexdigest()[:16]


def model_payload(case):
    out = {k: case[k] for k in ("method", "is_max", "subpix", "dmin", "dmax", "cv", "disp", "mask", "pmin", "pmax") if k in case}
    out["variant"] = dict(VARIANT)
    return out


def detect_variant(report):
    """The Lean model follows the code as it is and, per flag, the three repairs of proposed_fixes/C06-*.diff
    (theorems cover every combination).  Three probes decide which ones the implementation under test carries."""
    base = {"is_max": False, "mask": [[0]]}
    flat = ra.run_refinement(dict(base, method="quadratic", subpix=1, dmin=-1, dmax=1, cv=[[[1, 1, 1]]], disp=[[0]]))
    VARIANT["flat"] = flat["res"] == "ok"
    twice = ra.run_refinement(dict(base, method="vfit", subpix=1, dmin=-1, dmax=1, cv=[[[5, 1, 3]]], disp=[[-1]], mask=[[8]]))
    VARIANT["or"] = twice["res"] == "ok" and twice["mask"][0][0] == 8
    wrap = ra.run_refinement(dict(base, method="vfit", subpix=4, dmin=1, dmax=2, cv=[[[1, 8, 3, 5, 4]]], disp=[["9/8"]]))
    VARIANT["ends"] = wrap["res"] == "ok" and wrap["mask"][0][0] == 8 and wrap["disp"][0][0] == "9/8"
    report.notes.append(f"model variant compared with the implementation: {VARIANT}")
    return VARIANT


def extra_evidence():
    return {"model_variant": dict(VARIANT)}


def single_pixel(case, r, c):
    out = {k: case[k] for k in ("method", "is_max", "subpix", "dmin", "dmax")}
    out["cv"] = [[case["cv"][r][c]]]
    out["disp"] = [[case["disp"][r][c]]]
    out["mask"] = [[case["mask"][r][c]]]
    if "pmin" in case:
        out["pmin"] = [[case["pmin"][r][c]]]
        out["pmax"] = [[case["pmax"][r][c]]]
    return out


def near(a, b, tol):
    """a, b wire values; equal up to tol (NaN equal to NaN)"""
    fa, fb = frac(a), frac(b)
    if fa is None or fb is None:
        return fa is None and fb is None
    return abs(fa - fb) <= tol


UNDEFINED = ("out_of_bounds", "nan_disparity")


def split_model_errors(case, model):
    """pixels on which the model raises are also run alone (a raising pixel aborts the whole map):
    -> (case without those pixels [their flag made invalid], [single-pixel cases]).
    Pixels whose disparity designates no sample of the row (undefined behaviour in numba: unchecked read)
    are never given to the implementation."""
    singles = []
    if model["res"] == "ok":
        return case, singles
    rest = json.loads(json.dumps(case))
    for r, row in enumerate(model["err"]):
        for c, e in enumerate(row):
            if e:
                if e not in UNDEFINED:
                    singles.append(single_pixel(case, r, c))
                rest["mask"][r][c] = 1  # border/nodata: the loop skips it
    return rest, singles


def add_failure(report, clause, trigger, case, impl, detail):
    """at most 3 reports per (clause, situation): every distinct kind stays visible"""
    n = sum(1 for f in report.failures if f["clause"] == clause and f["trigger"] == trigger)
    if n < 3:
        report.fail(clause, trigger, case, impl, detail)


# ------------------------------------------------------------------------------------------------
# one case: implementation vs model, specification on the implementation
# ------------------------------------------------------------------------------------------------
def check_case(ctx, report, case, label, captured=None, depth=0):
    model = ctx.lean.call("C06.refine", **model_payload(case))
    undefined = any(e in UNDEFINED for row in model["err"] for e in row)
    if undefined:
        report.count("situation_input_outside_interval_skipped")
    if model["res"] != "ok" and depth == 0 and (undefined or len(case["cv"]) > 1 or len(case["cv"][0]) > 1):
        rest, singles = split_model_errors(case, model)
        for s in singles:
            check_case(ctx, report, s, label + ":single", depth=1)
        check_case(ctx, report, rest, label + ":rest", depth=1)
        return
    impl = ra.run_refinement(case)
    tol = case_tol(case)
    n_pix = sum(len(r) for r in case["disp"])
    sample = {"label": label, "method": case["method"], "is_max": case["is_max"], "subpix": case["subpix"],
              "shape": [len(case["cv"]), len(case["cv"][0]), len(case["cv"][0][0])], "impl_res": impl["res"]}
    classes = {}
    for row in model["class"]:
        for cl in row:
            classes[cl] = classes.get(cl, 0) + 1
    nontrivial = any(k not in ("invalid", "ill_formed") for k in classes)
    report.case(key=key_of(case), nontrivial=nontrivial, sample=sample)
    report.count("pixels", n_pix)
    report.count(f"method_{case['method']}")
    report.count("measure_max" if case["is_max"] else "measure_min")
    report.count(f"subpix_{case['subpix']}")
    for k, v in classes.items():
        report.count("class_" + k, v)
    for row in model["trigger"]:
        for t in row:
            if t.startswith("offgrid") or t in ("bit3_already_set", "quadratic_three_equal_costs"):
                report.count("situation_" + t)

    # ---- totality
    report.hit("total")
    if impl["res"] != "ok":
        trig = "unexpected_exception"
        if model["res"] != "ok":
            # the model raises only in `quadratic`, and there exactly when the three costs it read are equal
            # (theorem quadratic_raises_iff)
            trig = "quadratic_three_equal_costs" if model["res"] == "zero_division" else "model_" + model["res"]
        else:
            report.disagree("raises", case, impl, {"res": model["res"]})
        add_failure(report, "total", trig, case, impl, f"the step raised: {impl.get('exception')}")
        return
    if model["res"] != "ok":
        report.disagree("model_raises_impl_does_not", case, {"res": "ok"}, {"res": model["res"], "err": model["err"]})

    if not impl["cv_unchanged"]:
        report.fail("cv_unchanged", "cost_volume_modified", case, impl)
    if captured is not None:
        for fld in ("disp", "mask", "coeff"):
            if captured[fld] != impl[fld]:
                report.disagree("pipeline_vs_direct_call." + fld, case, captured[fld], impl[fld])

    # ---- correspondence, pixel by pixel
    for r, row in enumerate(model["err"]):
        for c, e in enumerate(row):
            if e:
                continue
            if impl["mask"][r][c] != model["mask"][r][c]:
                report.disagree("mask", single_pixel(case, r, c), impl["mask"][r][c], model["mask"][r][c])
            if not near(impl["disp"][r][c], model["disp"][r][c], tol):
                report.disagree("disp", single_pixel(case, r, c), impl["disp"][r][c], model["disp"][r][c])
            elif model["disp"][r][c] == case["disp"][r][c] and not core.same_cell(
                    core.dec(impl["disp"][r][c]), core.dec(model["disp"][r][c])):  # not moved: exactly the same
                report.disagree("disp_exact", single_pixel(case, r, c), impl["disp"][r][c], model["disp"][r][c])
            if not near(impl["coeff"][r][c], model["coeff"][r][c], tol):
                report.disagree("coeff", single_pixel(case, r, c), impl["coeff"][r][c], model["coeff"][r][c])

    # ---- the specification on the implementation's output
    spec = ctx.lean.call("C06.spec", **model_payload(case), out_coeff=impl["coeff"], out_disp=impl["disp"],
                         out_mask=impl["mask"], tol=wire(tol))
    for k, v in spec["classes"].items():
        if k == "invalid":
            report.hit("invalid_untouched", v)
        elif k == "centre_nan":
            report.hit("stopped_iff:centre_nan", v)
        elif k in ("at_interval_end", "neighbour_nan", "not_extremum"):
            report.hit("stopped_iff:" + k, v)
            report.hit("only_bit3", v)
        elif k == "refine":
            for cl in ("shift_le_half", "coeff_is_fitted_cost", "coeff_not_worse", "inside_interval", "only_bit3"):
                report.hit(cl, v)
            report.hit("is_vfit_optimum" if case["method"] == "vfit" else "is_parabola_optimum", v)
    for f in spec["failures"]:
        r, c = f["row"], f["col"]
        if all(sum(1 for g in report.failures if g["clause"] == cl and g["trigger"] == f["trigger"]) >= 3
               for cl in f["clauses"]):
            continue  # this kind is already documented three times
        small = single_pixel(case, r, c)
        impl_pix = {"coeff": impl["coeff"][r][c], "disp": impl["disp"][r][c], "mask": impl["mask"][r][c],
                    "class": f["class"]}
        # minimise: the pixel alone
        try:
            alone = ra.run_refinement(small)
            if alone["res"] == "ok":
                sp = ctx.lean.call("C06.spec", **model_payload(small), out_coeff=alone["coeff"], out_disp=alone["disp"],
                                   out_mask=alone["mask"], tol=wire(tol))
                if sp["failures"] and set(sp["failures"][0]["clauses"]) & set(f["clauses"]):
                    rep_case, rep_impl = small, {"coeff": alone["coeff"][0][0], "disp": alone["disp"][0][0],
                                                 "mask": alone["mask"][0][0], "class": f["class"]}
                else:
                    rep_case, rep_impl = dict(case, focus=[r, c]), impl_pix
            else:
                rep_case, rep_impl = dict(case, focus=[r, c]), impl_pix
        except Exception:  # pylint: disable=broad-except
            rep_case, rep_impl = dict(case, focus=[r, c]), impl_pix
        for cl in f["clauses"]:
            add_failure(report, cl, f["trigger"], rep_case, rep_impl, f"pixel ({r},{c}) class {f['class']}")


# ------------------------------------------------------------------------------------------------
# generators
# ------------------------------------------------------------------------------------------------
def interval_for(subpix, rng=None):
    """an interval with exactly 5 samples"""
    width = {1: 4, 2: 2, 4: 1}[subpix]
    lo = 0 if rng is None else rng.choice([-3, -2, -1, 0, 1])
    return lo, lo + width


def exhaustive_cases(methods=("vfit", "quadratic"), subpixes=(1, 2, 4), rng=None):
    for method, is_max, subpix in itertools.product(methods, (False, True), subpixes):
        dmin, dmax = interval_for(subpix, rng)
        dv = [Fraction(dmin) + Fraction(k, subpix) for k in range(5)]
        cells, disp = [], []
        for (c0, c1, c2) in itertools.product(ALPHABET, repeat=3):
            for pos in range(5):
                costs = [7, 5, 6, 5, 7]  # filler around the triple (never a better extremum issue: only the triple is read)
                costs[pos] = c1
                if pos - 1 >= 0:
                    costs[pos - 1] = c0
                if pos + 1 < 5:
                    costs[pos + 1] = c2
                cells.append(costs)
                disp.append(wire(dv[pos]))
        n = 25
        cv = [cells[i * n:(i + 1) * n] for i in range(n)]
        dm = [disp[i * n:(i + 1) * n] for i in range(n)]
        yield {"method": method, "is_max": is_max, "subpix": subpix, "dmin": dmin, "dmax": dmax,
               "cv": cv, "disp": dm, "mask": [[0] * n for _ in range(n)]}


def best_index(costs, lo, hi, is_max):
    best = None
    for i in range(lo, hi + 1):
        q = frac(costs[i])
        if q is None:
            continue
        if best is None or (q > frac(costs[best]) if is_max else q < frac(costs[best])):
            best = i
    return best


def random_case(rng, method=None, allow_offgrid=True):
    method = method or rng.choice(["vfit", "quadratic"])
    is_max = rng.random() < 0.4
    subpix = rng.choice([1, 2, 4])
    dmin = rng.choice([-3, -2, -1, 0, 1])
    width = rng.choice([0, 1, 2, 2, 3, 4]) if subpix == 1 else rng.choice([1, 1, 2, 3])
    dmax = dmin + width
    n = width * subpix + 1
    dv = [Fraction(dmin) + Fraction(k, subpix) for k in range(n)]
    rows, cols = rng.randrange(1, 6), rng.randrange(1, 9)
    mode = rng.choice(["int", "int", "tie", "float"])
    cv, disp, mask, pmin, pmax = [], [], [], [], []
    for _ in range(rows):
        cvr, dr, mr, lor, hir = [], [], [], [], []
        for _ in range(cols):
            if mode == "int":
                costs = [rng.randrange(0, 9) for _ in range(n)]
            elif mode == "tie":
                costs = [rng.randrange(0, 3) for _ in range(n)]
            else:
                costs = [wire(Fraction(rng.randrange(0, 4096), 64)) for _ in range(n)]
            for i in range(n):
                if rng.random() < 0.08:
                    costs[i] = "nan"
            if rng.random() < 0.04:
                costs = ["nan"] * n
            lo, hi = 0, n - 1
            if rng.random() < 0.3 and n > 1:  # the pixel's own interval: NaN outside (variable disparity grids)
                lo = rng.randrange(0, n)
                hi = rng.randrange(lo, n)
                for i in range(n):
                    if i < lo or i > hi:
                        costs[i] = "nan"
            flag = rng.choice([0, 0, 0, 0, 0, 4, 4, 2048, 16, 32, 1024, 4 + 2048])
            if rng.random() < 0.12:
                flag += 8  # an earlier refinement already stopped here
            if rng.random() < 0.15:
                flag = rng.choice([1, 2, 64, 128, 256, 512, 2 + 64, 1 + 4, 128 + 8, 512 + 16])
            invalid = (flag & INVALID_MASK) != 0
            if invalid:
                d = rng.choice(["nan", -9999, wire(rng.choice(dv))])
            else:
                u = rng.random()
                b = best_index(costs, lo, hi, is_max)
                if u < 0.6 and b is not None:
                    d = dv[b]
                elif u < 0.8 or not allow_offgrid or lo == hi:
                    d = dv[rng.randrange(lo, hi + 1)]
                else:  # as a median / bilateral filter leaves it: anywhere inside the interval
                    i = rng.randrange(lo, hi)
                    if b is not None and b < hi and rng.random() < 0.5:
                        i = b  # ... often next to the winner
                    d = dv[i] + Fraction(rng.choice([1, 1, 2, 3, 1, 3, 5, 7]), rng.choice([2, 4, 4, 8])) / subpix
                    if d > dv[hi]:
                        d = dv[hi]
                d = wire(d)
            cvr.append(costs)
            dr.append(d)
            mr.append(flag)
            lor.append(wire(dv[lo]))
            hir.append(wire(dv[hi]))
        cv.append(cvr)
        disp.append(dr)
        mask.append(mr)
        pmin.append(lor)
        pmax.append(hir)
    return {"method": method, "is_max": is_max, "subpix": subpix, "dmin": dmin, "dmax": dmax,
            "cv": cv, "disp": disp, "mask": mask, "pmin": pmin, "pmax": pmax}


def next_step_case(case, impl, method=None):
    """the same cost volume refined again: the outputs of the first step are the inputs of the second"""
    nxt = dict(case)
    nxt["disp"] = impl["disp"]
    nxt["mask"] = impl["mask"]
    if method:
        nxt["method"] = method
    return nxt


def grid_exact(a):
    return [[wire(Fraction(float(v))) if v == v else "nan" for v in row] for row in a]


def case_of_record(rec):
    """a refinement call observed inside a real pipeline -> kernel-level case (+ what the pipeline produced)"""
    import numpy as np

    dv = rec["dvals"]
    case = {"method": rec["method"], "is_max": bool(rec["is_max"]), "subpix": rec["subpix"],
            "dmin": int(dv[0]), "dmax": int(dv[-1]),
            "cv": [grid_exact(row) for row in rec["cv"]],
            "disp": grid_exact(rec["disp"]),
            "mask": [[int(v) for v in row] for row in rec["mask"]]}
    captured = None
    if rec.get("res") == "ok":
        captured = {"disp": core.enc(np.asarray(rec["out_disp"], dtype=np.float64)),
                    "mask": [[int(v) for v in row] for row in rec["out_mask"]],
                    "coeff": core.enc(np.asarray(rec["out_coeff"], dtype=np.float64))}
    return case, captured


def random_pipeline(rng):
    measure = rng.choice(["sad", "ssd", "census", "zncc"])
    window = 3 if measure == "census" else rng.choice([1, 3])
    subpix = rng.choice([1, 2, 4])
    pipe = {"matching_cost": {"matching_cost_method": measure, "window_size": window, "subpix": subpix},
            "disparity": {"disparity_method": "wta", "invalid_disparity": rng.choice([-9999, "NaN"])}}
    flt = rng.choice([None, "median", "bilateral", "median"])
    if flt:
        pipe["filter"] = {"filter_method": flt}
        if flt == "median":
            pipe["filter"]["filter_size"] = 3
    m1 = rng.choice(["vfit", "quadratic"])
    pipe["refinement"] = {"refinement_method": m1}
    if rng.random() < 0.5:
        pipe["refinement.1"] = {"refinement_method": rng.choice(["vfit", "quadratic"])}
    if rng.random() < 0.5:
        pipe["validation"] = {"validation_method": "cross_checking_accurate"}
    return pipe


def pipeline_cases(ctx, report, count):
    rng = ctx.rng
    for _ in range(count):
        rows, cols = rng.randrange(5, 9), rng.randrange(6, 11)
        dmin = rng.choice([-3, -2, -1, 0])
        dmax = dmin + rng.choice([1, 2, 3])
        # textured images (few exact ties, so that `quadratic` seldom meets three equal costs)
        base = [[rng.randrange(0, 64) for _ in range(cols + 6)] for _ in range(rows)]
        shift = rng.choice([0, 1, -1])
        left_data = [[base[r][c + 3] for c in range(cols)] for r in range(rows)]
        right_data = [[base[r][c + 3 + shift] + rng.choice([0, 0, 1]) for c in range(cols)] for r in range(rows)]
        left = ra.make_image(rng, rows, cols, dmin, dmax, data=left_data)
        right = ra.make_image(rng, rows, cols, dmin, dmax, data=right_data, with_disp=False)
        pipe = random_pipeline(rng)
        log, res = ra.run_pipeline_capture(pipe, left, right)
        report.count("pipelines")
        report.count("pipeline_result_" + res.split(" ")[0])
        for rec in log:
            if rec["step"] != "refinement":
                continue
            case, captured = case_of_record(rec)
            yield case, captured, "pipeline:" + "+".join(pipe)


# ------------------------------------------------------------------------------------------------
def translator_cross_check(report, status):
    """the flag constants the translator read from the source text equal the live module's"""
    import pandora.constants as cst
    from translator import gen_constants

    try:
        gen = gen_constants.extract()
    except Exception:  # already reported by build_and_audit
        return
    report.translator_checks += 1
    live = {k: int(getattr(cst, k)) for k in dir(cst) if k.startswith("PANDORA_MSK_")}
    if gen != live:
        status.problem("translator", "generated flag constants differ from pandora.constants")
    if live.get("PANDORA_MSK_PIXEL_STOPPED_INTERPOLATION") != 8 or live.get("PANDORA_MSK_PIXEL_INVALID") != INVALID_MASK:
        status.problem("translator", "bit 3 / invalid mask are not the documented values")


def variant_cross_check(report, status):
    """what the translator read in the source text (`+=` or `|=`, the form of the interval-end test, the
    `alpha == 0` guard) agrees with what the three probes observed on the running code"""
    t11 = (status.generated or {}).get("T11")
    if not t11:
        return
    report.translator_checks += 1
    read = {k: t11["variant"][k] for k in ("flat", "or", "ends")}
    if read != VARIANT:
        status.problem("translator", f"variant read in the source {read} differs from the behaviour observed {VARIANT}")


# ------------------------------------------------------------------------------------------------
# the regenerated kernels (translator/pyexpr.py, Generated/Kernels.lean)
# ------------------------------------------------------------------------------------------------
def kernel_triples(rng, count):
    """cost triples [c0, c1, c2] (wire values): every triple over {0,1,2,3,NaN}, flats, ties, random integers,
    dyadic floats, negative values, NaN anywhere (the centre included: the functions are defined there too)"""
    out = [list(t) for t in itertools.product(ALPHABET, repeat=3)]
    out += [[v, v, v] for v in (0, 5, -3, "1/2", 1000)]
    for _ in range(count):
        mode = rng.choice(["int", "tie", "float", "neg", "near"])
        if mode == "int":
            t = [rng.randrange(0, 9) for _ in range(3)]
        elif mode == "tie":
            t = [rng.randrange(0, 3) for _ in range(3)]
        elif mode == "float":
            t = [wire(Fraction(rng.randrange(0, 4096), 64)) for _ in range(3)]
        elif mode == "neg":
            t = [rng.randrange(-8, 9) for _ in range(3)]
        else:  # a centre barely better than its neighbours: long shifts, the clamp of `quadratic`
            c = rng.randrange(0, 50)
            t = [wire(c + Fraction(rng.randrange(0, 3), 1024)), c, wire(c + Fraction(rng.randrange(0, 40), 8))]
            if rng.random() < 0.5:
                t.reverse()
        if rng.random() < 0.1:
            t[rng.randrange(3)] = "nan"
        out.append(t)
    return out


def real_method(fn, triple, measure, dtype):
    import numpy as np

    a = np.array([float("nan") if frac(v) is None else float(frac(v)) for v in triple], dtype=dtype)
    try:
        s, c, f = fn(a, 0.0, measure)
    except ZeroDivisionError:
        return {"res": "zero_division"}
    val = lambda x: "nan" if x != x else wire(Fraction(float(x)))  # noqa: E731
    return {"res": "ok", "shift": val(s), "cost": val(c), "flag": int(f)}


def random_approx_case(rng):
    """a right map as the approximate disparity step leaves it (integer disparities of [-dmax, -dmin], the matched left column in
    the image, otherwise the pixel is invalid) on a left cost volume"""
    sp = rng.choice([1, 1, 2, 4])
    dmin = rng.choice([-2, -1, 0])
    dmax = dmin + rng.choice([1, 2, 3])
    nd = (dmax - dmin) * sp + 1
    rows, cols = rng.randrange(1, 3), rng.randrange(3, 8)
    cv = [[[None if rng.random() < 0.06 else Fraction(rng.randrange(0, 12), rng.choice([1, 1, 2])) for _ in range(nd)]
           for _ in range(cols)] for _ in range(rows)]
    disp, mask = [], []
    for _ in range(rows):
        drow, mrow = [], []
        for c in range(cols):
            flag = rng.choice([0, 0, 0, 0, 0, 4, 16, 1, 64, 2048])
            d = -Fraction(rng.randrange(dmin, dmax + 1))
            if not 0 <= c + d <= cols - 1:
                flag |= 1
            drow.append(d)
            mrow.append(flag)
        disp.append(drow)
        mask.append(mrow)
    return {"kind": "approx", "method": rng.choice(["vfit", "quadratic"]), "measure": rng.choice(["min", "max"]), "subpix": sp,
            "dmin": dmin, "dmax": dmax, "cv": [[[wire(v) for v in px] for px in row] for row in cv],
            "disp": [[wire(v) for v in row] for row in disp], "mask": mask}


def check_approx_case(ctx, report, case, label):
    """the REAL `loop_approximate_refinement` on one right map; the specification of the approximation (Model/Refinement.lean:
    `apxClassify` / `apxClauses`, re-stated here clause by clause — each is a one-liner) evaluated on what it returns"""
    import math
    import warnings

    import numpy as np
    from pandora import refinement as refinement_pkg

    sp, dmin, dmax, is_max = int(case["subpix"]), int(case["dmin"]), int(case["dmax"]), case["measure"] == "max"
    cv = [[[frac(v) for v in px] for px in row] for row in case["cv"]]
    disp = [[frac(v) for v in row] for row in case["disp"]]
    mask = case["mask"]
    ncol = len(cv[0])
    ref = refinement_pkg.AbstractRefinement(**{"refinement_method": case["method"]})
    nanf = float("nan")
    try:
        with warnings.catch_warnings():
            warnings.simplefilter("ignore")
            itp, nd_, nm_ = ref.loop_approximate_refinement(
                np.array([[[nanf if v is None else float(v) for v in px] for px in row] for row in cv], dtype=np.float32),
                np.array([[nanf if v is None else float(v) for v in row] for row in disp], dtype=np.float32),
                np.array(mask, dtype=np.uint16), dmin, dmax, sp, case["measure"], ref.refinement_method)
    except Exception as exc:  # pylint: disable=broad-except
        add_failure(report, "approx:total", "approx_raises", case, {"exception": type(exc).__name__}, str(exc)[:120])
        report.case(json.dumps(case, sort_keys=True), True, None)
        return
    tol = float(TOL_SCALE) * 13
    for r, drow in enumerate(disp):
        for c, d in enumerate(drow):
            flag = mask[r][c]
            o_c, o_d, o_f = float(itp[r, c]), float(nd_[r, c]), int(nm_[r, c])
            impl = {"row": r, "col": c, "coeff": o_c if not math.isnan(o_c) else "nan", "disp": o_d, "mask": o_f}

            def fail(clause, trigger, detail):
                focus = dict(case)
                focus["focus"] = [r, c]
                add_failure(report, "approx:" + clause, trigger, focus, impl, detail)

            if flag & 963:
                report.hit("approx:invalid_untouched")
                if not (o_d == float(d) and o_f == flag):
                    fail("invalid_untouched", "approx_invalid", f"invalid right pixel changed: d {d} -> {o_d}, flag {flag} -> {o_f}")
                continue
            diag = c + int(d)
            if not (-dmax <= d <= -dmin and 0 <= diag < ncol):
                continue
            j = int((-d - dmin) * sp)
            centre = cv[r][diag][j]
            if centre is None:
                if not (o_d == float(d) and o_f == flag):
                    fail("centre_nan_untouched", "approx_centre_nan", "NaN matched cost: pixel changed")
                continue
            ends = d == -dmin or d == -dmax or diag == 0 or diag == ncol - 1
            refine = False
            if not ends:
                c0, c2 = cv[r][diag - 1][j + sp], cv[r][diag + 1][j - sp]
                if c0 is not None and c2 is not None:
                    refine = (centre >= c0 and centre >= c2) if is_max else (centre <= c0 and centre <= c2)
            if not refine:
                report.hit("approx:stopped_iff")
                if not (o_d == float(d) and (o_f >> 3) & 1 == 1):
                    fail("stopped_iff", "approx_stopped", f"not refinable: expected d unchanged and bit 3, got d {o_d}, flag {o_f}")
                if not (o_f % 8 == flag % 8 and o_f // 16 == flag // 16):
                    fail("only_bit3", "approx_stopped", f"flag {flag} -> {o_f}")
                if math.isnan(o_c) or abs(o_c - float(centre)) > tol:
                    fail("coeff_is_matched_cost", "approx_stopped",
                         f"coefficient {o_c} is not the cost {centre} of the match cv[{r}, {diag}, {j}]")
            else:
                report.hit("approx:shift_le_half")
                if o_f != flag:
                    fail("stopped_iff", "approx_refined", f"refinable pixel flagged: {flag} -> {o_f}")
                if math.isnan(o_d) or abs(o_d - float(d)) > 0.5 / sp + tol:
                    fail("shift_le_half", "approx_refined", f"d {d} -> {o_d}, subpix {sp}")
                elif not (-dmax - tol <= o_d <= -dmin + tol):
                    fail("inside_interval", "approx_refined", f"d {d} -> {o_d} outside [{-dmax}, {-dmin}]")
                worse = math.isnan(o_c) or ((o_c < float(centre) - tol) if is_max else (o_c > float(centre) + tol))
                if worse:
                    fail("coeff_not_worse", "approx_refined",
                         f"coefficient {o_c} worse than the cost {centre} of the match cv[{r}, {diag}, {j}]")
    report.case(hashlib.sha256(json.dumps(case, sort_keys=True).encode()).hexdigest()[:16], True, None)


def loop_cross_check(ctx, report, status):
    """T12p: the REAL compiled `loop_refinement` / `loop_approximate_refinement` (with the real compiled method) on small maps,
    against the exact interpreter of the per-pixel body translator/gen_kernels_refine.py reads from the source (the reading
    behind Generated/KernelsRefine.lean), the method being the exact evaluation of the translated `refinement_method`:
    every pixel, coefficient / disparity within the float tolerance, NaN-ness and flag word exactly."""
    import math
    import warnings

    import numpy as np
    from pandora import refinement as refinement_pkg
    from translator import gen_kernels, gen_kernels_refine, pyexpr

    try:
        loops = gen_kernels_refine.kernels()
        methods = gen_kernels.kernels()
    except Exception:  # Unsupported: already reported by build_and_audit (translate())
        return
    report.translator_checks += 1
    rng = ctx.rng

    def exact_method(name):
        k = methods[name]

        def run(costs, d, measure):
            res, vals = pyexpr.evaluate(k, list(costs), 0 if d is None else d, measure)
            if res != "ok":
                raise gen_kernels_refine.PyErr("zeroDivision")
            return vals
        return run

    def to_np(v):
        return float("nan") if v is None else float(v)

    def close(real, want, scale):
        if want is None or (isinstance(real, float) and math.isnan(real)):
            return want is None and math.isnan(real)
        return abs(real - float(want)) <= TOL_SCALE * (1 + scale)

    pixels = 0
    for it in range(ctx.n(90, 900)):
        approx = it % 3 == 2
        mname, lean_m = rng.choice([("vfit", "vfitMethod"), ("quadratic", "quadraticMethod")])
        measure = rng.choice(["min", "max"])
        sp = rng.choice([1, 1, 2, 4])
        dmin = rng.choice([-2, -1, 0])
        dmax = dmin + rng.choice([1, 2, 3])
        nd = (dmax - dmin) * sp + 1
        rows, cols = rng.randrange(1, 3), rng.randrange(3, 7)
        cv = [[[None if rng.random() < 0.08 else Fraction(rng.randrange(0, 9), rng.choice([1, 1, 2]))
                for _ in range(nd)] for _ in range(cols)] for _ in range(rows)]
        disp, mask = [], []
        for r in range(rows):
            drow, mrow = [], []
            for c in range(cols):
                flag = rng.choice([0, 0, 0, 0, 4, 16, 8, 1, 64, 2048])
                if approx:
                    d = -Fraction(rng.randrange(dmin, dmax + 1))          # right map: pixel disparities of the opposite sign
                    if not 0 <= c + d <= cols - 1:
                        flag |= 1
                else:
                    d = dmin + Fraction(rng.randrange(0, nd), sp)
                    if rng.random() < 0.15 and d < dmax:
                        d += Fraction(1, 4 * sp)                             # off the grid, inside the interval
                drow.append(d)
                mrow.append(flag)
            disp.append(drow)
            mask.append(mrow)
        ref = refinement_pkg.AbstractRefinement(**{"refinement_method": mname})
        fn = ref.loop_approximate_refinement if approx else ref.loop_refinement
        k = loops["loopApproxRefinementPx" if approx else "loopRefinementPx"]
        a_cv = np.array([[[to_np(v) for v in px] for px in row] for row in cv], dtype=np.float32)
        a_d = np.array([[to_np(v) for v in row] for row in disp], dtype=np.float32)
        a_m = np.array(mask, dtype=np.uint16)
        want = []
        raised = False
        for r in range(rows):
            for c in range(cols):
                kw = {"cv_row": cv[r], "col": c} if approx else {"cv_pix": cv[r][c]}
                res = k.interpret(exact_method(lean_m), disp[r][c], mask[r][c], dmin, dmax, sp, measure, **kw)
                want.append((r, c, res))
                raised = raised or res[0] != "ok"
        if any(res[0] == "err" and res[1] != "zeroDivision" for _, _, res in want):
            continue  # an unchecked read outside the arrays: undefined behaviour in numba, never given to the real kernel
        try:
            with warnings.catch_warnings():
                warnings.simplefilter("ignore")
                itp, nd_, nm_ = fn(a_cv, a_d.copy(), a_m.copy(), dmin, dmax, sp, measure, ref.refinement_method)
        except Exception as exc:  # pylint: disable=broad-except
            if not raised:
                status.problem("translator", f"the real {fn.__name__} raises {type(exc).__name__} where the translated pixel body "
                               f"returns everywhere; method {mname}/{measure}, subpix {sp}, interval [{dmin}, {dmax}]")
                return
            continue
        if raised:
            status.problem("translator", f"the translated pixel body of {fn.__name__} raises where the real kernel returns")
            return
        scale = 9.0
        for r, c, res in want:
            pixels += 1
            w_itp, w_d, w_m = res[1]
            got = (float(itp[r, c]), float(nd_[r, c]), int(nm_[r, c]))
            if not (close(got[0], w_itp, scale) and close(got[1], w_d, scale) and got[2] == w_m):
                status.problem("translator", f"translated pixel body of {fn.__name__} evaluates differently from the real compiled "
                               f"kernel at ({r}, {c}): real (coeff, disp, mask) = {got}, translated = "
                               f"({w_itp}, {w_d}, {w_m}); method {mname}/{measure}, subpix {sp}, interval [{dmin}, {dmax}], "
                               f"disp {disp[r][c]}, mask {mask[r][c]}, costs {[str(v) for v in (cv[r][c] if not approx else [])]}")
                return
    report.count("loop_pixels_vs_real", pixels)
    report.hit("translator:pixel_body_vs_real")


def kernel_cross_check(ctx, report, status):
    """The REAL `Vfit.refinement_method` / `Quadratic.refinement_method` (the compiled njit functions) on a few hundred
    triples against (a) the translator's own exact evaluation of the AST it translated (`pyexpr.evaluate`, Fractions):
    a mismatch means the translator misreads Python -> `status.problem("translator", …)`; (b) the hand model through
    `C06.refine` on a one-row map whose cells are the triples (numeric centres): a mismatch is a disagreement."""
    import numpy as np
    from pandora.refinement import quadratic as quadratic_mod, vfit as vfit_mod
    from translator import gen_kernels, pyexpr

    try:
        kernels = gen_kernels.kernels()
    except Exception:  # Unsupported: already reported by build_and_audit (translate())
        return
    report.translator_checks += 1
    # the translator's self-test: every function outside the subset is refused, CPython and the evaluator agree on
    # the functions inside it (the third reading, Lean's, is checked at build time: Generated/KernelsSelfTest.lean)
    from translator import pyexpr_selftest

    try:
        for what in pyexpr_selftest.refused_problems():
            status.problem("translator", f"pyexpr self-test: a construct outside the subset is not refused — {what}")
        for what in pyexpr_selftest.python_problems():
            status.problem("translator", f"pyexpr self-test: the evaluator differs from CPython — {what}")
    except Exception as exc:  # pylint: disable=broad-except
        status.problem("translator", f"pyexpr self-test crashed: {type(exc).__name__}: {exc}")
    real = {"vfit": ("vfitMethod", vfit_mod.Vfit.refinement_method),
            "quadratic": ("quadraticMethod", quadratic_mod.Quadratic.refinement_method)}
    triples = kernel_triples(ctx.rng, ctx.n(150, 1500))
    problems = 0
    for method, (lean_name, fn) in real.items():
        k = kernels[lean_name]
        for measure in ("min", "max"):
            results = []
            for t in triples:
                tol = TOL_SCALE * (1 + max([abs(frac(v)) for v in t if frac(v) is not None] or [0]))
                r = real_method(fn, t, measure, np.float32)
                results.append(r)
                report.count("kernel_calls")
                # (a) translator's evaluator
                try:
                    res, vals = pyexpr.evaluate(k, [frac(v) for v in t], 0, measure)
                except pyexpr.TranslatorBug as exc:
                    res, vals = "translator_bug:" + str(exc), None
                ev = {"res": "zero_division"} if res == "ZeroDivisionError" else {"res": res}
                if vals is not None:
                    ev = {"res": "ok", "shift": wire(vals[0]), "cost": wire(vals[1]), "flag": int(vals[2])}
                same = ev["res"] == r["res"] and (r["res"] != "ok" or (
                    ev["flag"] == r["flag"] and near(ev["shift"], r["shift"], tol) and near(ev["cost"], r["cost"], tol)))
                if not same:
                    problems += 1
                    if problems <= 3:
                        status.problem("translator", f"translated {method}.refinement_method evaluates differently from the "
                                       f"real function on cost={t} measure={measure}", f"real={r} translated={ev}")
            # (b) hand model, numeric centres only (the loop never passes a NaN centre)
            idx = [i for i, t in enumerate(triples) if frac(t[1]) is not None]
            case = {"method": method, "is_max": measure == "max", "subpix": 1, "dmin": -1, "dmax": 1,
                    "cv": [[triples[i] for i in idx]], "disp": [[0] * len(idx)], "mask": [[0] * len(idx)]}
            model = ctx.lean.call("C06.refine", **model_payload(case))
            for j, i in enumerate(idx):
                t, r = triples[i], results[i]
                tol = TOL_SCALE * (1 + max([abs(frac(v)) for v in t if frac(v) is not None] or [0]))
                e = model["err"][0][j]
                if e:
                    m = {"res": e}
                else:
                    m = {"res": "ok", "shift": model["disp"][0][j], "cost": model["coeff"][0][j], "flag": model["mask"][0][j]}
                same = m["res"] == r["res"] and (r["res"] != "ok" or (
                    m["flag"] == r["flag"] and near(m["shift"], r["shift"], tol) and near(m["cost"], r["cost"], tol)))
                if not same:
                    report.disagree("refinement_method", single_pixel(case, 0, j), r, m)
    # (c) the guard of loop_refinement: the translated expression against CPython's evaluation of the same source text
    g = kernels.get("refineGuard")
    if g is not None:
        for n_disp in (1, 2, 3, 5):
            for dsp in range(-1, n_disp + 1):
                for dv in (-2, -1, 0, Fraction(1, 2), 1, 3):
                    for (lo, hi) in ((-1, 1), (0, 3), (-2, -2)):
                        env = {"dsp": dsp, "n_disp": n_disp, "disp": np.array([[float(dv)]]), "row": 0, "col": 0,
                               "d_min": float(lo), "d_max": float(hi), "np": np}
                        want = bool(eval(g.source, {"__builtins__": {}}, env))  # pylint: disable=eval-used
                        res, vals = pyexpr.evaluate(g, dsp, n_disp, dv, lo, hi)
                        report.count("kernel_guard_evaluations")
                        if res != "ok" or bool(vals[0]) != want:
                            problems += 1
                            if problems <= 3:
                                status.problem("translator", f"translated guard `{g.source}` evaluates to {vals} where Python "
                                               f"gives {want} (dsp={dsp}, n_disp={n_disp}, disp={dv}, interval={lo, hi})")
    report.notes.append(f"kernels: {4 * len(triples)} direct calls of the two refinement_method compared with the "
                        f"translator's evaluator and with the hand model; {problems} translator mismatches")


def run(ctx, report, status):
    translator_cross_check(report, status)
    detect_variant(report)
    variant_cross_check(report, status)
    report.rule = (
        "one call of the real subpixel_refinement per case, compared pixel by pixel with the Lean model, the Lean "
        "specification evaluated on the implementation's output. Cases: every cost triple over {0,1,2,3,NaN}^3 at "
        "every position of a 5-sample interval (both methods, min/max, subpix 1/2/4); random maps with ties, NaN "
        "holes, per-pixel intervals, invalid pixels, preset bit 3 and off-grid (post-filter) disparities; each "
        "random map refined a second time; refinement steps observed inside real pipelines (pandora.run); a few hundred "
        "direct calls of Vfit/Quadratic.refinement_method (ties, flats, NaN anywhere, min/max) compared with the "
        "translator's own evaluation of the kernels it regenerated and with the hand model. "
        "Non-trivial = at least one valid pixel with a numeric disparity; distinct by canonical input."
    )
    rng = ctx.rng
    for name, case in core.load_corpus(PROP):
        check_case(ctx, report, case.get("input", case), "corpus:" + name)
    for case in exhaustive_cases(rng=rng):
        check_case(ctx, report, case, "exhaustive")
    report.exhaustive = False
    for i in range(ctx.n(120, 2500)):
        case = random_case(rng)
        check_case(ctx, report, case, "random")
        if i % 2 == 0:  # repeated refinement
            impl = ra.run_refinement(case)
            if impl["res"] == "ok":
                check_case(ctx, report, next_step_case(case, impl, rng.choice([None, "vfit", "quadratic"])), "repeat")
    for case, captured, label in pipeline_cases(ctx, report, ctx.n(6, 60)):
        check_case(ctx, report, case, label, captured=captured)
    kernel_cross_check(ctx, report, status)  # last: the streams above keep their cases for a given seed
    loop_cross_check(ctx, report, status)
    for _ in range(ctx.n(60, 600)):  # the right-map approximation: specification on the real loop_approximate_refinement
        check_approx_case(ctx, report, random_approx_case(rng), "approx")


def search(ctx, report, status):
    """Directed search after a broken obligation / disagreement: the exhaustive triple table and a larger
    random stream on the real code, the Lean specification as oracle; known findings are skipped."""
    known = {(k.get("clause"), k.get("trigger")) for k in core.load_known(PROP)}
    sub = core.Report(PROP, ctx.tier, ctx.seed)
    detect_variant(sub)

    def first_unknown():
        for f in sub.failures:
            if (f["clause"], f["trigger"]) not in known:
                return f
        return None

    # the disagreeing cases first
    for d in report.disagreements:
        case = d.get("case")
        if isinstance(case, dict) and "cv" in case:
            check_case(ctx, sub, {k: v for k, v in case.items() if k != "focus"}, "search:disagreement")
            if first_unknown():
                return first_unknown()
    for case in exhaustive_cases():
        check_case(ctx, sub, case, "search:exhaustive")
        if first_unknown():
            return first_unknown()
    for _ in range(300):
        check_approx_case(ctx, sub, random_approx_case(ctx.rng), "search:approx")
        if first_unknown():
            return first_unknown()
    for _ in range(1500):
        check_case(ctx, sub, random_case(ctx.rng), "search:random")
        if first_unknown():
            return first_unknown()
    return None


def replay(ctx, report, path):
    with open(path, encoding="utf-8") as f:
        data = json.load(f)
    case = data.get("input", data)
    case = {k: v for k, v in case.items() if k != "focus"}
    detect_variant(report)
    if case.get("kind") == "approx":
        check_approx_case(ctx, report, case, "replay")
    else:
        check_case(ctx, report, case, "replay")
    known = {(k.get("clause"), k.get("trigger")) for k in core.load_known(PROP)}
    for fl in report.failures:
        tag = "known finding" if (fl["clause"], fl["trigger"]) in known else "spec failure"
        print(f"{tag}: {fl['clause']} [{fl['trigger']}] {fl['detail']} impl={json.dumps(fl['impl'])[:300]}")
    for d in report.disagreements:
        print("disagreement:", json.dumps(d, default=str)[:600])
    print("replayed: failures=%d disagreements=%d" % (len(report.failures), len(report.disagreements)))
    return 1 if report.failures else 0
