"""C09 — the requested disparity interval is honoured and does not leak into costs.

First half: differential on the real code (two runs of the PandoraMachine matching_cost step — optionally followed
by cbca aggregation — that differ only by the requested interval / grids), judged by the Lean driver (`C09.pair`),
which also evaluates the same relation on the model volumes (theorems `cost_indep`, `slice_of_larger`,
`grid_inside_same`, `outside_pixel_interval_nan` of Properties/C09.lean).
Second half: the real machine run step by step on small pairs; after `disparity` and `refinement` every valid
pixel's disparity lies in its own interval (and, after `disparity`, is a sample with a numeric cost — theorem
`wta_in_pixel_interval`), at the end of the pipeline in the global interval; the stored `disparity_interval` is
the interval searched (`stored_interval`).
Pipeline composition (Properties/C09Pipeline.lean): the map *entering* every step of the tail (refinement, filter,
validation) is handed to the Lean driver (`C09.hyp`), which evaluates on it the hypotheses of the composition
theorems with the definitions the theorems use: the invariant (`boundedValidB gmin gmax`: every valid pixel carries a
number of the global interval — in particular no valid pixel is NaN —, `oneFlag`: never both bit 8 and bit 9) and, for a
refinement step, `refineReadyB` (the map is on the sample grid of the cost volume the step reads, every valid pixel
inside its own interval, one cost per sample, NaN costs outside the pixel's interval, bit 3 clear unless the step
or-s its flag) and "first / last disparity of the cost volume inside the requested interval".  A hypothesis that
fails is reported even when the conclusion still holds on the sampled input.
"""
from __future__ import annotations

import copy
import json
import os

from .. import core
from ..impl import mc_cases as G

PROP = "C09"
INVALID_BITS = 1 + 2 + 64 + 128 + 256 + 512  # PANDORA_MSK_PIXEL_INVALID (cross-checked against pandora.constants)


def _install_known():
    orig = core.load_known
    if getattr(orig, "_d_patched", False):
        return

    def load_known(p):
        out = list(orig(p))
        path = os.path.join(core.VERIF, "known_findings.d", f"{p}.json")
        if os.path.exists(path):
            with open(path, encoding="utf-8") as f:
                for e in json.load(f).get("findings", []):
                    if e.get("property") == p and e.get("status") == "known" and all(e.get("id") != o.get("id") for o in out):
                        out.append(e)
        return out

    load_known._d_patched = True  # pylint: disable=protected-access
    core.load_known = load_known


_install_known()


def translate():
    from translator import registry

    # Interp / Blocks / RefineCC: the composition theorems are stated over the step models of C14 / C10 / C06-C07
    return registry.generate("MatchingCostConsts", "Constants", "Interp", "Blocks", "RefineCC")


# --------------------------------------------------------------------------------------------
# generators
# --------------------------------------------------------------------------------------------
def base_case(rng, small=False):
    """a C02-style case kept inside the domain where the code does not raise (C02-F1, C02-F2 are C02's findings)"""
    case = G.gen_case(rng, small=small, beyond=False, quarter_ok=False)
    if G.multiband_subpix_sadssd(case):
        case["subpix"] = 1
    wdt = max(0, G.domain_width(case))
    a, b = G.sampled_extremes(case)
    a2, b2 = max(-wdt, min(wdt, a)), max(-wdt, min(wdt, b))
    if (a2, b2) != (a, b) or case["disp"]["kind"] == "grid":
        case["disp"] = {"kind": "scalar", "min": a2, "max": b2}
    case["right"] = False
    case["right_disp"] = None
    return case


def widen(rng, case):
    """a larger scalar interval, still inside the domain"""
    wdt = max(0, G.domain_width(case))
    a, b = case["disp"]["min"], case["disp"]["max"]
    a2 = max(-wdt, a - rng.choice([0, 0, 1, 2, 3]))
    b2 = min(wdt, b + rng.choice([0, 1, 1, 2, 4]))
    return dict(case, disp={"kind": "scalar", "min": a2, "max": b2})


def grid_of(rng, case, const=False):
    a, b = case["disp"]["min"], case["disp"]["max"]
    rows, cols = case["rows"], case["cols"]
    if const:
        g = {"kind": "grid", "min": [[a] * cols for _ in range(rows)], "max": [[b] * cols for _ in range(rows)]}
    else:
        g = G.gen_grid(rng, rows, cols, a, b)
        # make sure the global extremes are those of the scalar interval
        g["min"][0][0] = a
        g["max"][rows - 1][cols - 1] = b
        g["max"][0][0] = max(g["max"][0][0], a)
        g["min"][rows - 1][cols - 1] = min(g["min"][rows - 1][cols - 1], b)
    return dict(case, disp=g)


def wider_grid(rng, case):
    """per-pixel intervals that contain those of `case` (a grid case), inside the domain"""
    wdt = max(0, G.domain_width(case))
    mn = [[max(-wdt, v - rng.choice([0, 0, 1, 2])) for v in row] for row in case["disp"]["min"]]
    mx = [[min(wdt, v + rng.choice([0, 0, 1, 2])) for v in row] for row in case["disp"]["max"]]
    return dict(case, disp={"kind": "grid", "min": mn, "max": mx})


CBCA = {"aggregation_method": "cbca", "cbca_intensity": 5.0, "cbca_distance": 3}


# --------------------------------------------------------------------------------------------
# first half: two runs differing only by the interval
# --------------------------------------------------------------------------------------------
def cost_volume_of(case, aggregate):
    from ..impl import mc_adapter as A

    pipe = {"matching_cost": A.mc_cfg(case)}
    if aggregate:
        pipe["aggregation"] = dict(CBCA)
    res = A.run_and_observe(case, pipe)
    if "error" in res:
        return res
    snap = res["steps"][-1][1]
    return {"cv": snap["cv"], "disp": snap["disp"]}


def check_pair(ctx, report, case1, case2, kind, aggregate=False, with_model=True):
    """case1 / case2: same images, masks and configuration, different requested disparities."""
    n0 = len(report.failures)
    r1 = cost_volume_of(case1, aggregate)
    r2 = cost_volume_of(case2, aggregate)
    payload = {"case1": case1, "case2": case2, "kind": kind, "aggregate": aggregate}
    report.count(f"pair_{kind}" + ("_cbca" if aggregate else ""))
    report.count(f"method_{case1['method']}")
    report.count(f"subpix_{case1['subpix']}")
    if "error" in r1 or "error" in r2:
        report.count("impl_raises")
        # a run that raises shows nothing about C09 (the step failing is the subject of C02 / C11)
        report.case(key=json.dumps(payload, sort_keys=True), nontrivial=False)
        return 0
    pl = G.payload(case1, "left")
    dmin2, dmax2 = G.expand_disp(case2["disp"], case2["rows"], case2["cols"])
    pl.update({"dmin2": dmin2, "dmax2": dmax2, "impl1": G.enc_volume(r1["cv"]), "impl2": G.enc_volume(r2["cv"]),
               "with_model": bool(with_model and not aggregate)})
    out = ctx.lean.call("C09.pair", **pl)
    sp = case1["subpix"]
    # the sampled disparities are those of the global interval of each run
    for res, g0, g1, nd in ((r1, out["gmin1"], out["gmax1"], out["nd1"]), (r2, out["gmin2"], out["gmax2"], out["nd2"])):
        want = [g0 + i / sp for i in range(nd)]
        if res["disp"] != want or want[-1] != g1:
            report.fail("stored_interval", "cost_volume_disp_coords", payload, {"disp": res["disp"]},
                        f"disparity coordinates are not the samples of [{g0}, {g1}]")
    if with_model and not aggregate and out["wf1"] and out["wf2"] and out["n_bad_model"]:
        report.disagree("model_pair_relation", payload, None, out["bad_model"])
    clause_same = {"slice": "slice_of_larger", "grid": "grid_inside_same", "const": "const_grid_eq_scalar",
                   "gridgrid": "grid_inside_same"}[kind]
    if out["n_bad_impl_same"]:
        trig = kind + ("_with_cbca_aggregation" if aggregate else "")
        report.fail(clause_same, trig, payload, out["bad_impl_same"],
                    f"{out['n_bad_impl_same']} costs differ between two runs that differ only by the requested disparities")
    if out["n_bad_impl_outside"]:
        report.fail("grid_outside_nan", kind + ("_with_cbca_aggregation" if aggregate else ""), payload, out["bad_impl_outside"],
                    f"{out['n_bad_impl_outside']} costs outside the pixel's interval are not NaN")
    if kind == "const":
        import numpy as np

        if r1["disp"] != r2["disp"] or not np.array_equal(r1["cv"], r2["cv"], equal_nan=True):
            report.fail("const_grid_eq_scalar", "whole_volume" + ("_with_cbca_aggregation" if aggregate else ""), payload, None,
                        "a constant grid and the scalar interval give different cost volumes")
    if out["n_compared"]:
        report.hit(clause_same, out["n_compared"])
    if out["n_outside"]:
        report.hit("grid_outside_nan", out["n_outside"])
    report.case(key=json.dumps(payload, sort_keys=True), nontrivial=out["n_compared"] > 0,
                sample={"kind": kind, "aggregate": aggregate, "method": case1["method"], "subpix": sp,
                        "size": [case1["rows"], case1["cols"]], "compared_cells": out["n_compared"]})
    return len(report.failures) - n0


# --------------------------------------------------------------------------------------------
# second half: the pipeline honours the interval
# --------------------------------------------------------------------------------------------
def gen_pipeline(rng, case):
    from ..impl import mc_adapter as A

    pipe = {"matching_cost": A.mc_cfg(case)}
    if rng.random() < 0.2:
        pipe["aggregation"] = dict(CBCA)
    pipe["disparity"] = {"disparity_method": "wta", "invalid_disparity": rng.choice(["NaN", -9999])}
    if rng.random() < 0.6:
        pipe["refinement"] = {"refinement_method": rng.choice(["vfit", "quadratic"])}
    if rng.random() < 0.5:
        if rng.random() < 0.7:
            pipe["filter"] = {"filter_method": "median", "filter_size": 3}
        else:
            pipe["filter"] = {"filter_method": "bilateral", "sigma_color": 2.0, "sigma_space": 6.0}
    if rng.random() < 0.5:
        v = {"validation_method": "cross_checking_accurate", "cross_checking_threshold": rng.choice([0.0, 1.0])}
        if rng.random() < 0.6:
            v["interpolated_disparity"] = rng.choice(["mc-cnn", "sgm"])
        pipe["validation"] = v
        if rng.random() < 0.3:
            pipe["filter.after"] = {"filter_method": "median", "filter_size": 3}
    return pipe


def gen_offgrid_pipeline(rng, case):
    """the shape excluded from the composition theorems (C06-F5): a step that may move valid disparities off the sample
    grid (bilateral / median filter, validation with filling), THEN refinement; the machine accepts it"""
    from ..impl import mc_adapter as A

    pipe = {"matching_cost": A.mc_cfg(case)}
    pipe["disparity"] = {"disparity_method": "wta", "invalid_disparity": rng.choice(["NaN", -9999])}
    r = rng.random()
    if r < 0.5:
        pipe["filter"] = {"filter_method": "bilateral", "sigma_color": rng.choice([2.0, 4.0]), "sigma_space": rng.choice([1.0, 6.0])}
    elif r < 0.8:
        pipe["filter"] = {"filter_method": "median", "filter_size": 3}
    else:
        pipe["validation"] = {"validation_method": "cross_checking_accurate", "cross_checking_threshold": rng.choice([0.0, 1.0]),
                              "interpolated_disparity": rng.choice(["mc-cnn", "sgm"])}
    pipe["refinement"] = {"refinement_method": rng.choice(["vfit", "vfit", "quadratic"])}
    if rng.random() < 0.3:
        pipe["filter.after"] = {"filter_method": "median", "filter_size": 3}
    return pipe


def enc_map(a):
    return [[core.enc(float(v)) for v in row] for row in a]


_FIX_OR = {}


def refinement_ors_flag():
    """does `loop_refinement` raise bit 3 with `|=` (read in the source text, translator T11); when the text cannot be
    read the stricter hypothesis (bit 3 clear) is evaluated"""
    if "v" not in _FIX_OR:
        try:
            from translator import gen_refine_cc

            _FIX_OR["v"] = bool(gen_refine_cc.extract()["flag_update_is_or"])
        except Exception:  # pylint: disable=broad-except
            _FIX_OR["v"] = False
    return _FIX_OR["v"]


def moves_disparities(name, pipe):
    """may this step leave a valid disparity off the sample grid (filters, filling, refinement itself)?"""
    kind = name.split(".")[0]
    if kind in ("filter", "refinement"):
        return True
    return kind == "validation" and "interpolated_disparity" in pipe[name]


def check_entry(ctx, report, case, pipe, payload, name, prev_name, prev, coords, gmin, gmax, moved_by):
    """Hypotheses of the composition theorems (Properties/C09Pipeline.lean) on the REAL map entering step `name`
    (= what `prev_name` left), evaluated by the Lean driver with the definitions the theorems use.
    `moved_by`: the first earlier step of the tail that may have taken disparities off the sample grid (None: the map
    still carries what the disparity step wrote).  Returns False when a refinement step is entered with a map that is
    not `refineReadyB` (the excluded shape: the conclusions are then judged under their own trigger)."""
    kind = name.split(".")[0]
    prev_kind = prev_name.split(".")[0]
    rows, cols = case["rows"], case["cols"]
    pl = {"rows": rows, "cols": cols, "disp": enc_map(prev["map"]),
          "mask": [[int(v) for v in row] for row in prev["mask"]], "lo": int(gmin), "hi": int(gmax)}
    if kind == "refinement":
        pmin, pmax = G.expand_disp(case["disp"], rows, cols)
        pl["refine"] = {"cv": G.enc_volume(prev["cv"]), "sp": case["subpix"], "dmin": core.enc(float(coords[0])),
                        "dmax": core.enc(float(coords[-1])), "pmin": pmin, "pmax": pmax, "fix_or": refinement_ors_flag()}
    out = ctx.lean.call("C09.hyp", **pl)
    where = f"entering_{kind}_after_{prev_kind}"
    if not out["bounded"]:
        report.fail("hyp_valid_pixels_bounded", where, payload, {"step": name, "bad": out["bad_bounded"]},
                    f"{out['n_bad_bounded']} valid pixels of the map entering {name} carry NaN or a disparity outside "
                    f"[{gmin}, {gmax}]: {json.dumps(out['bad_bounded'][:1])}")
    elif out["n_valid"]:
        report.hit("hyp_valid_pixels_bounded", out["n_valid"])
    if not out["one_flag"]:
        report.fail("hyp_never_both_bits_8_9", where, payload, {"step": name, "bad": out["bad_one_flag"]},
                    f"the map entering {name} has pixels flagged both occlusion and mismatch: {json.dumps(out['bad_one_flag'][:1])}")
    else:
        report.hit("hyp_never_both_bits_8_9")
    ready = True
    if kind == "refinement":
        if not out["ends_in_interval"]:
            report.fail("hyp_refine_cv_ends_in_interval", "cost_volume_coords", payload, {"coords": [coords[0], coords[-1]]},
                        f"the cost volume read by {name} spans [{coords[0]}, {coords[-1]}], not inside [{gmin}, {gmax}]")
        else:
            report.hit("hyp_refine_cv_ends_in_interval")
        if out["refine_ready"]:
            report.hit("hyp_refine_entry_ready", out["n_valid"])
        else:
            ready = False
            for why in out["refine_whys"]:
                if moved_by is None:
                    # nothing moved the disparities since winner-takes-all: `wtaMap_refineReady` promises this hypothesis
                    report.fail("hyp_refine_entry_ready", f"{why}_after_{prev_kind}", payload,
                                {"step": name, "bad": out["bad_refine"]},
                                f"{out['n_bad_refine']} pixels of the map entering {name} are not what refinement assumes "
                                f"({why}): {json.dumps(out['bad_refine'][:1])}")
                else:
                    # the excluded shape (C06-F5): refinement of a map a filter / a filling / a refinement has moved
                    report.count(f"excluded_shape:{why}_entering_refinement_after_{moved_by.split('.')[0]}")
    return ready


def check_pipeline(ctx, report, case, pipe, label):
    from ..impl import mc_adapter as A

    n0 = len(report.failures)
    payload = {"case": case, "pipeline": pipe}
    res = A.run_and_observe(case, pipe)
    report.count("pipelines")
    for name in pipe:
        report.count("step_" + name.split(".")[0])
    if "error" in res:
        # e.g. quadratic refinement on three equal costs (C06's subject): nothing to say about the interval
        report.count(f"pipeline_raises_{res['error']}_at_{res['at'].split('.')[0]}")
        report.case(key=json.dumps(payload, sort_keys=True), nontrivial=False)
        return 0
    rows, cols = case["rows"], case["cols"]
    gmin, gmax = G.sampled_extremes(case)
    last_disp = None
    nvalid_total = 0
    coords = None  # disparity coordinates of the cost volume
    moved_by = None  # first step of the tail that may have moved disparities off the sample grid
    offgrid_refinement = False  # some refinement step received a map that is not `refineReadyB`
    for name, snap in res["steps"]:
        if snap["state"] == "cost_volume":
            coords = snap["disp"]
        if snap["state"] != "disp_map":
            continue
        kind = name.split(".")[0]
        if last_disp is not None and kind in ("refinement", "filter", "validation") and coords:
            if not check_entry(ctx, report, case, pipe, payload, name, last_disp[0], last_disp[1], coords, gmin, gmax, moved_by):
                offgrid_refinement = True
        moved_before = moved_by is not None
        if last_disp is not None and moved_by is None and moves_disparities(name, pipe):
            moved_by = name
        last_disp = (name, snap)
        valid = [[(int(snap["mask"][r][c]) & INVALID_BITS) == 0 for c in range(cols)] for r in range(rows)]
        if kind == "refinement" and moved_before:
            # "within its own per-pixel interval right after the disparity and refinement steps": nothing is claimed of a
            # refinement that follows a filter / a filling / another refinement (a median of neighbours with other
            # intervals legitimately leaves the pixel's own interval); the global interval is still judged at the end
            report.count("refinement_after_moving_step:per_pixel_clause_not_claimed")
        elif kind in ("disparity", "refinement"):
            pl = G.payload(case, "left")
            pl.update({"disp": enc_map(snap["map"]), "valid_px": valid, "mode": "pixel"})
            if kind == "disparity":
                pl.update({"sample": True, "cv": G.enc_volume(snap["cv"]),
                           "model_wta": case["method"] != "zncc"})
            out = ctx.lean.call("C09.inside", **pl)
            clause = "after_disp_in_pixel_interval" if kind == "disparity" else "after_refine_in_pixel_interval"
            if out["n_valid"]:
                report.hit(clause, out["n_valid"])
            nvalid_total += out["n_valid"]
            if out["n_bad"]:
                report.fail(clause, "outside_" + case["disp"]["kind"], payload, {"step": name, "bad": out["bad"]},
                            f"{out['n_bad']} valid pixels have a disparity outside their own interval after {name}: {json.dumps(out['bad'][:1])}")
            if kind == "disparity" and out["n_wta_bad"]:
                report.disagree("wta_first_best_inside_interval", payload, out["wta_bad"], "model argmin/argmax differs")
            if kind == "disparity":
                if snap.get("interval") != [float(gmin), float(gmax)]:
                    report.fail("stored_interval", "disparity_interval", payload, {"stored": snap.get("interval")},
                                f"stored disparity_interval differs from the requested global interval [{gmin}, {gmax}]")
                else:
                    report.hit("stored_interval")
    if last_disp is not None:
        name, snap = last_disp
        # the other half of the invariant the tail keeps (`runSteps_inv`): never both bit 8 and bit 9, also at the end
        inv = ctx.lean.call("C09.hyp", rows=rows, cols=cols, disp=enc_map(snap["map"]),
                            mask=[[int(v) for v in row] for row in snap["mask"]], lo=int(gmin), hi=int(gmax))
        if not inv["one_flag"]:
            report.fail("hyp_never_both_bits_8_9", "final_map_after_" + name.split(".")[0], payload,
                        {"step": name, "bad": inv["bad_one_flag"]},
                        f"the final map has pixels flagged both occlusion and mismatch: {json.dumps(inv['bad_one_flag'][:1])}")
        else:
            report.hit("hyp_never_both_bits_8_9")
        valid = [[(int(snap["mask"][r][c]) & INVALID_BITS) == 0 for c in range(cols)] for r in range(rows)]
        pl = G.payload(case, "left")
        pl.update({"disp": enc_map(snap["map"]), "valid_px": valid, "mode": "global"})
        out = ctx.lean.call("C09.inside", **pl)
        if out["n_valid"]:
            report.hit("final_in_global_interval", out["n_valid"])
        if out["n_bad"]:
            steps = "+".join(n.split(".")[0] for n in pipe)
            filled = "interpolated_disparity" in pipe.get("validation", {})
            trig = "final_outside_after_" + (pipe["validation"]["interpolated_disparity"] + "_filling" if filled else steps)
            if offgrid_refinement:
                trig = "final_outside_after_offgrid_refinement"
            report.fail("final_in_global_interval", trig, payload, {"step": name, "bad": out["bad"]},
                        f"{out['n_bad']} valid pixels end outside the requested global interval [{gmin}, {gmax}]: {json.dumps(out['bad'][:1])}")
        if snap.get("interval") is not None and snap.get("interval") != [float(gmin), float(gmax)]:
            report.fail("stored_interval", "disparity_interval_final", payload, {"stored": snap.get("interval")},
                        f"stored disparity_interval differs from the requested global interval [{gmin}, {gmax}]")
        # right products (validation): the right interval is [-max, -min]
        if "map_right" in snap:
            rvalid = [[(int(snap["mask_right"][r][c]) & INVALID_BITS) == 0 for c in range(cols)] for r in range(rows)]
            plr = G.payload(case, "right")
            plr.update({"disp": enc_map(snap["map_right"]), "valid_px": rvalid, "mode": "global"})
            outr = ctx.lean.call("C09.inside", **plr)
            if outr["n_valid"]:
                report.hit("final_in_global_interval:right", outr["n_valid"])
            if outr["n_bad"]:
                filled = "interpolated_disparity" in pipe.get("validation", {})
                trig = ("final_outside_after_" + pipe["validation"]["interpolated_disparity"] + "_filling") if filled else "right_map"
                report.fail("final_in_global_interval", trig, payload, {"side": "right", "bad": outr["bad"]},
                            f"{outr['n_bad']} valid pixels of the right map end outside [-max, -min]")
    report.case(key=json.dumps(payload, sort_keys=True), nontrivial=nvalid_total > 0,
                sample={"label": label, "steps": list(pipe), "method": case["method"], "disp": case["disp"]["kind"]})
    return len(report.failures) - n0


# --------------------------------------------------------------------------------------------
# run / search / replay
# --------------------------------------------------------------------------------------------
def translator_cross_check(report, status):
    import pandora.constants as cst

    report.translator_checks += 1
    if int(cst.PANDORA_MSK_PIXEL_INVALID) != INVALID_BITS:
        status.problem("translator", "PANDORA_MSK_PIXEL_INVALID differs from the documented invalidating bits 0,1,6,7,8,9")


def pair_stream(ctx, n, rng=None):
    rng = rng or ctx.rng
    for i in range(n):
        case = base_case(rng, small=(i % 3 == 0))
        if rng.random() < 0.4:
            case = G.correlated_pair(rng, case)
        kind = ["slice", "grid", "const", "gridgrid", "slice"][i % 5]
        aggregate = (i % 7 == 3)
        if kind == "slice":
            yield case, widen(rng, case), kind, aggregate
        elif kind == "grid":
            yield grid_of(rng, case), case, kind, aggregate and (i % 14 == 3)
        elif kind == "const":
            yield grid_of(rng, case, const=True), case, kind, aggregate
        else:
            g = grid_of(rng, case)
            yield g, wider_grid(rng, g), kind, False


def pipeline_stream(ctx, n, rng=None):
    rng = rng or ctx.rng
    for i in range(n):
        case = base_case(rng, small=True)
        case = G.correlated_pair(rng, case) if rng.random() < 0.7 else case
        if i % 3 == 0:
            case = grid_of(rng, case)
        yield case, gen_pipeline(rng, case)


def offgrid_stream(ctx, n, rng=None):
    import random

    rng = rng or random.Random(ctx.seed * 7919 + 909)  # its own stream: the two older streams are left as they were
    for i in range(n):
        case = base_case(rng, small=True)
        case = G.correlated_pair(rng, case) if rng.random() < 0.7 else case
        if i % 4 == 0:
            case = grid_of(rng, case)
        yield case, gen_offgrid_pipeline(rng, case)


def check_large(ctx, report, rng, label="large"):
    """a pair larger than every internal bound (100-pixel blocks, path lengths) with a wide masked area beside a narrow
    valid strip and an interval that does not contain 0: only the end of the pipeline is judged (global interval)"""
    from ..impl import mc_adapter as A

    rows, cols = rng.choice([(130, 240), (125, 135), (8, 230), (240, 128), (118, 112)])
    a = rng.choice([2, 3, -6, -8])
    b = a + rng.choice([3, 4, 5])
    shift = rng.randint(a, b)
    base = [[rng.randint(0, 40) for _ in range(cols + 2 * 10)] for _ in range(rows)]
    left = [row[10:10 + cols] for row in base]
    right = [[v if rng.random() > 0.2 else rng.randint(0, 40) for v in row[10 + shift:10 + shift + cols]] for row in base]
    msk = [[0] * cols for _ in range(rows)]
    strip = rng.randint(9, 14)
    if cols >= rows:
        c0 = rng.choice([0, cols - strip, rng.randrange(0, cols - strip)])
        for r in range(rows):
            for c in range(cols):
                if not c0 <= c < c0 + strip:
                    msk[r][c] = rng.choice([1, 2])
    else:
        r0 = rng.choice([0, rows - strip, rng.randrange(0, rows - strip)])
        for r in range(rows):
            if not r0 <= r < r0 + strip:
                msk[r] = [rng.choice([1, 2])] * cols
    case = {"rows": rows, "cols": cols, "bands": None, "band": None, "left_im": left, "right_im": right,
            "left_msk": msk, "right_msk": None, "disp": {"kind": "scalar", "min": a, "max": b}, "right_disp": None,
            "method": rng.choice(["sad", "census"]), "window": 3, "subpix": 1, "row0": 0, "col0": 0, "right": True}
    pipe = {"matching_cost": A.mc_cfg(case), "disparity": {"disparity_method": "wta", "invalid_disparity": rng.choice(["NaN", -9999])},
            "validation": {"validation_method": "cross_checking_accurate", "cross_checking_threshold": rng.choice([0.0, 1.0]),
                           "interpolated_disparity": rng.choice(["sgm", "sgm", "mc-cnn"])}}
    if rng.random() < 0.4:
        pipe["filter.after"] = {"filter_method": "median", "filter_size": 3}
    payload = {"case": case, "pipeline": pipe}
    res = A.run_pipeline(case, pipe)
    report.count("large_pipelines")
    if isinstance(res, dict):
        report.count(f"pipeline_raises_{res['error']}")
        return
    out_l, _out_r, _m = res
    import numpy as np

    mask = np.array(out_l["validity_mask"].data).astype(np.int64)
    valid = ((mask & INVALID_BITS) == 0).tolist()
    pl_ = G.payload(case, "left")
    pl_.update({"disp": enc_map(np.array(out_l["disparity_map"].data, dtype=np.float64)), "valid_px": valid, "mode": "global"})
    out = ctx.lean.call("C09.inside", **pl_)
    if out["n_valid"]:
        report.hit("final_in_global_interval", out["n_valid"])
    if out["n_bad"]:
        trig = "final_outside_after_" + pipe["validation"]["interpolated_disparity"] + "_filling"
        report.fail("final_in_global_interval", trig, payload, {"bad": out["bad"]},
                    f"{out['n_bad']} valid pixels of a {rows}x{cols} map end outside the requested global interval [{a}, {b}]: {json.dumps(out['bad'][:1])}")
    report.case(key=json.dumps({"large": [rows, cols, a, b, shift, strip], "pipe": pipe}, sort_keys=True), nontrivial=out["n_valid"] > 0,
                sample={"label": label, "shape": [rows, cols], "interval": [a, b], "steps": list(pipe)})


def check_fractional(ctx, report, rng, label="fractional"):
    """per-pixel grids whose bounds are not integers (the grids are float rasters): costs outside a pixel's own
    [min, max] are NaN and the disparity / refined disparity of a valid pixel lies inside it. Judged by the executable
    specification alone (`C09.fractional`): the matching-cost model takes integer grids."""
    from fractions import Fraction

    from ..impl import mc_adapter as A

    rows, cols = rng.randint(5, 8), rng.randint(9, 13)
    sign = rng.choice(["neg", "pos", "mixed"])
    fr = [Fraction(0), Fraction(1, 2), Fraction(1, 4), Fraction(3, 4)]

    def bounds():
        if sign == "neg":
            hi = -Fraction(rng.randint(0, 2)) - rng.choice(fr)
            lo = hi - rng.randint(0, 3) - rng.choice(fr)
        elif sign == "pos":
            lo = Fraction(rng.randint(0, 2)) + rng.choice(fr)
            hi = lo + rng.randint(0, 3) + rng.choice(fr)
        else:
            lo = -Fraction(rng.randint(0, 2)) - rng.choice(fr)
            hi = Fraction(rng.randint(0, 2)) + rng.choice(fr)
        return lo, hi

    per_pixel = rng.random() < 0.6
    b0 = bounds()
    grid = [[(bounds() if per_pixel else b0) for _ in range(cols)] for _ in range(rows)]
    dmin = [[float(g[0]) for g in row] for row in grid]
    dmax = [[float(g[1]) for g in row] for row in grid]
    base = [[rng.randint(0, 40) for _ in range(cols + 12)] for _ in range(rows)]
    sh = rng.randint(-2, 2)
    case = {"rows": rows, "cols": cols, "bands": None, "band": None,
            "left_im": [row[6:6 + cols] for row in base], "right_im": [row[6 + sh:6 + sh + cols] for row in base],
            "left_msk": G.gen_mask(rng, rows, cols) if rng.random() < 0.3 else None, "right_msk": None,
            "disp": {"kind": "grid", "min": dmin, "max": dmax}, "right_disp": None,
            "method": rng.choice(["sad", "ssd", "census", "zncc"]), "window": 3, "subpix": rng.choice([1, 2, 4]),
            "row0": 0, "col0": 0, "right": False}
    pipe = {"matching_cost": A.mc_cfg(case), "disparity": {"disparity_method": "wta", "invalid_disparity": rng.choice(["NaN", -9999])}}
    if rng.random() < 0.6:
        pipe["refinement"] = {"refinement_method": "vfit"}
    payload = {"case": case, "pipeline": pipe}
    res = A.run_and_observe(case, pipe)
    report.count("fractional_grid_pipelines")
    if "error" in res:
        report.count(f"pipeline_raises_{res['error']}_at_{res['at'].split('.')[0]}")
        return
    dq = [[core.enc(g[0]) for g in row] for row in grid]
    xq = [[core.enc(g[1]) for g in row] for row in grid]
    n_checked = 0
    for name, snap in res["steps"]:
        if snap["state"] == "cost_volume":
            out = ctx.lean.call("C09.fractional", dminq=dq, dmaxq=xq, coords=[core.enc(Fraction(d)) for d in snap["disp"]],
                                cv=G.enc_volume(snap["cv"]))
            if out["n_outside"]:
                report.hit("grid_outside_nan", out["n_outside"])
            n_checked += out["n_outside"]
            if out["n_bad_cost"]:
                report.fail("grid_outside_nan", "fractional_grid_bounds", payload, {"step": name, "bad": out["bad_cost"]},
                            f"{out['n_bad_cost']} costs outside the pixel's own interval are not NaN: {json.dumps(out['bad_cost'][:1])}")
        elif snap["state"] == "disp_map":
            kind = name.split(".")[0]
            valid = [[(int(snap["mask"][r][c]) & INVALID_BITS) == 0 for c in range(cols)] for r in range(rows)]
            out = ctx.lean.call("C09.fractional", dminq=dq, dmaxq=xq, disp=enc_map(snap["map"]), valid_px=valid)
            clause = "after_disp_in_pixel_interval" if kind == "disparity" else "after_refine_in_pixel_interval"
            if out["n_valid"]:
                report.hit(clause, out["n_valid"])
            n_checked += out["n_valid"]
            if out["n_bad_disp"]:
                report.fail(clause, "fractional_grid_bounds", payload, {"step": name, "bad": out["bad_disp"]},
                            f"{out['n_bad_disp']} valid pixels lie outside their own interval after {name}: {json.dumps(out['bad_disp'][:1])}")
    report.case(key=json.dumps(payload, sort_keys=True), nontrivial=n_checked > 0,
                sample={"label": label, "sign": sign, "per_pixel": per_pixel, "subpix": case["subpix"], "steps": list(pipe)})


def run_corpus_case(ctx, report, name, data, with_model=True):
    if "pipeline" in data:
        check_pipeline(ctx, report, data["case"], data["pipeline"], "corpus:" + name)
    else:
        check_pair(ctx, report, data["case1"], data["case2"], data["kind"], data.get("aggregate", False), with_model)


def run(ctx, report, status):
    translator_cross_check(report, status)
    report.rule = (
        "first half: pairs of runs of the real matching_cost step (1 in 7 followed by cbca aggregation) on the same image "
        "pair/masks/configuration with different requested disparities — nested scalar intervals, per-pixel grids vs the "
        "scalar interval of their extremes, constant grids vs the scalar interval, nested grid pairs; second half: random "
        "single-scale pipelines (wta, optional cbca, vfit/quadratic refinement, median/bilateral filter, cross-checking with "
        "mc-cnn/sgm filling) run step by step on small pairs with scalar intervals or grids, the map entering every step of "
        "the tail being checked against the hypotheses of the composition theorems (C09.hyp); plus pipelines of the excluded "
        "shape (filter or filling BEFORE refinement); plus pairs of more than 100 rows or columns with a wide masked area and an interval "
        "without 0, through cross-checking and filling, judged on the final map; plus per-pixel grids with non-integer bounds "
        "(halves and quarters, one-signed or straddling 0, subpix 1/2/4) judged by the specification alone; non-trivial = some compared cell / some valid pixel; distinct by full input"
    )
    for name, data in core.load_corpus(PROP):
        run_corpus_case(ctx, report, name, data)
    for c1, c2, kind, agg in pair_stream(ctx, ctx.n(100, 2500)):
        check_pair(ctx, report, c1, c2, kind, agg)
    for case, pipe in pipeline_stream(ctx, ctx.n(60, 1500)):
        check_pipeline(ctx, report, case, pipe, "random")
    for case, pipe in offgrid_stream(ctx, ctx.n(20, 400)):
        check_pipeline(ctx, report, case, pipe, "filter_or_filling_before_refinement")
    for _ in range(ctx.n(6, 40)):
        check_large(ctx, report, ctx.rng)
    for _ in range(ctx.n(30, 600)):
        check_fractional(ctx, report, ctx.rng)


def search(ctx, report, status):
    """directed search after a broken obligation: the same streams with the specification as only oracle"""
    import random

    sub = core.Report(PROP, ctx.tier, ctx.seed)
    known = core.load_known(PROP)

    def unknown():
        for f in sub.failures:
            if not any(k.get("clause") == f["clause"] and k.get("trigger") == f["trigger"] for k in known):
                return f
        return None

    rng = random.Random(ctx.seed + 77)
    for _ in range(12):
        check_large(ctx, sub, rng, "search")
        f = unknown()
        if f:
            return f
    for _ in range(100):
        check_fractional(ctx, sub, rng, "search")
        f = unknown()
        if f:
            return f
    for c1, c2, kind, agg in pair_stream(ctx, 600, rng):
        check_pair(ctx, sub, c1, c2, kind, agg, with_model=False)
        f = unknown()
        if f:
            return f
    for case, pipe in pipeline_stream(ctx, 400, rng):
        check_pipeline(ctx, sub, case, pipe, "search")
        f = unknown()
        if f:
            return f
    for case, pipe in offgrid_stream(ctx, 200, rng):
        check_pipeline(ctx, sub, case, pipe, "search")
        f = unknown()
        if f:
            return f
    return None


def replay(ctx, report, path):
    with open(path, encoding="utf-8") as f:
        data = json.load(f)
    data = data["input"] if "input" in data else data
    run_corpus_case(ctx, report, "replay", data)
    for fl in report.failures:
        print("spec failure:", fl["clause"], fl["trigger"], fl["detail"][:400])
    for d in report.disagreements:
        print("disagreement:", json.dumps(d, default=str)[:600])
    print("replayed: failures=%d disagreements=%d" % (len(report.failures), len(report.disagreements)))
    return 1 if report.failures else 0
