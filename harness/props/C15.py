"""C15 — a multiscale step really processes num_scales scales, coarse to fine."""
from __future__ import annotations

import copy
import json
from fractions import Fraction

import numpy as np

from .. import core
from ..impl import machine_stubs as ms
from ..impl import multiscale_direct as md
from ..impl import pipelines as pl
from ..impl.c18_worker import ds_fingerprint

PROP = "C15"


def translate():
    from translator import registry

    return registry.generate("Transitions", "Wiring", "Blocks", "Constants", "KernelsMultiscale", "KernelsMultiscaleGlue")


_CACHE = {}


def block_desc():
    """the literals of the chunk loop of `disparity_range` as the translator reads them (T8)"""
    if "blocks" not in _CACHE:
        from translator import gen_blocks

        try:
            _CACHE["blocks"] = gen_blocks.extract()["multiscaleRange"]
        except Exception:  # already reported by build_and_audit: fall back to the documented literals
            _CACHE["blocks"] = {"startY": 100, "stepY": 100, "stopYDim": 0, "startX": 100, "stepX": 100, "stopXDim": 1,
                                "beginY": ["halfm", "", 2, 1], "beginX": ["halfm", "", 2, 1]}
    return _CACHE["blocks"]


def split_for(window_size):
    d = block_desc()
    out = {k: d[k] for k in ("startY", "stepY", "stopYDim", "startX", "stepX", "stopXDim")}
    for k in ("beginY", "beginX"):
        b = d[k]
        out[k] = b[1] if b[0] == "lit" else (max(window_size - b[3], 0) // b[2] if b[0] == "halfm" else window_size // b[2])
    return out


def translator_cross_check(report, status):
    """the translated chunk loop against an independent reading of the live source and against the split
    points numpy really receives from the live function"""
    from translator import gen_blocks

    try:
        gen = gen_blocks.extract()["multiscaleRange"]
    except Exception:  # already reported by build_and_audit
        return
    live = md.live_literals()
    checks = [
        ("disparity_range chunk_size", (gen["startY"], gen["stepY"], gen["startX"], gen["stepX"]), (live["chunk_size"],) * 4),
        ("disparity_range offset", ((gen["beginY"][0],) + tuple(gen["beginY"][2:]), (gen["beginX"][0],) + tuple(gen["beginX"][2:])),
         (live["offset"], live["offset"])),
        # `ncol, nrow = shape`: the stop of the axis-0 split is the FIRST name of the unpacking, axis 1 the second
        ("disparity_range arange stops", (gen["stopYDim"], gen["stopXDim"]),
         tuple((live["shape_names"] or ()).index(a[1]) if a[1] in (live["shape_names"] or ()) else None for a in live["arange"])),
    ]
    for rows, cols, w in ((205, 103, 3), (102, 7, 3), (9, 206, 5), (6, 7, 5)):
        try:
            observed = md.observed_splits(rows, cols, w)
        except Exception as exc:  # pylint: disable=broad-except
            observed = f"disparity_range raised {type(exc).__name__}"
        checks.append((f"disparity_range array_split calls on {rows}x{cols}, window {w}",
                       md.expected_splits(gen, rows, cols, w), observed))
    for what, a, b in checks:
        report.translator_checks += 1
        if a != b:
            status.problem("translator", f"{what}: translator read {a}, live object/source has {b}")


def level_fingerprint(ds):
    """samples and mask of one pyramid level (what the steps of that scale work on)"""
    import hashlib

    h = hashlib.sha256()
    for name in ("im", "msk"):
        if name in ds:
            a = np.ascontiguousarray(np.array(ds[name].data))
            h.update(name.encode() + str(a.shape).encode() + str(a.dtype).encode() + a.tobytes())
    return h.hexdigest()


class CaptureMachine(ms.LoggedMachine):
    """the real machine; records what every matching_cost execution sees and what run_multiscale receives"""

    def __init__(self):
        super().__init__()
        self.levels = []
        self.ms_inputs = []

    def matching_cost_prepare(self, cfg, input_step):
        super().matching_cost_prepare(cfg, input_step)
        self.levels.append({
            "scale": int(self.current_scale),
            "rows": int(self.left_img.sizes["row"]), "cols": int(self.left_img.sizes["col"]),
            "fp_left": level_fingerprint(self.left_img), "fp_right": level_fingerprint(self.right_img),
            "disp_min": np.array(self.disp_min, dtype=np.float64), "disp_max": np.array(self.disp_max, dtype=np.float64),
            "right_disp_min": np.array(self.right_disp_min, dtype=np.float64) if self.right_disp_map else None,
            "right_disp_max": np.array(self.right_disp_max, dtype=np.float64) if self.right_disp_map else None,
        })

    def run_multiscale(self, cfg, input_step):
        d = self.left_disparity
        self.ms_inputs.append({
            "scale": int(self.current_scale),
            "disp": np.array(d["disparity_map"].data, dtype=np.float64),
            "flags": np.array(d["validity_mask"].data).astype(int),
            "window_size": int(d.attrs["window_size"]),
            "user_min": float(np.nanmin(np.array(self.dmin_user * self.scale_factor, dtype=np.float64))),
            "user_max": float(np.nanmax(np.array(self.dmax_user * self.scale_factor, dtype=np.float64))),
        })
        super().run_multiscale(cfg, input_step)


def run_multiscale_case(left, right, pipe, machine=None):
    import pandora
    from pandora.check_configuration import update_conf

    cfg = update_conf({"pipeline": {}}, {"pipeline": copy.deepcopy(pipe)})
    m = machine if machine is not None else CaptureMachine()
    # a machine that already ran another pipeline (history cases): only this run is observed
    m.levels, m.ms_inputs, m.cb_log = [], [], []
    m.orig_left = None
    meta = lambda ds: ds if "band_im" in ds.coords else ds.assign_coords(band_im=[None])
    m.check_conf(copy.deepcopy(cfg), meta(left), meta(right))
    cfg["pipeline"] = copy.deepcopy(m.pipeline_cfg["pipeline"])
    out_l, out_r = pandora.run(m, left, right, cfg)
    return out_l, out_r, m


def gen_case(rng, big=False):
    ns = rng.choice([2, 2, 3])
    f = rng.choice([2, 2, 3])
    if big:
        # the short side must still hold a matching window at the coarsest level (see the comment below)
        short = max(24, 6 * f ** (ns - 1))
        rows, cols = rng.choice([(short, 210), (206, short + 2)])
    else:
        # the coarsest level must still hold a matching window (images smaller than the window are outside C02's domain)
        base = f ** (ns - 1)
        rows = rng.randrange(7, 11) * base - rng.randrange(0, base)
        cols = rng.randrange(10, 14) * base - rng.randrange(0, base)
        # coarse sizes at which the coordinate arithmetic of zoom(order=0) lands a few ulps past the last sample
        # (29, 50 for factor 3): the last row / column of the finer level must still inherit from its parent
        if f == 3 and rng.random() < 0.35:
            n = rng.choice([29, 29, 50])
            fine = n * 3 - rng.randrange(0, 3) if ns == 2 else (n * 3 - rng.randrange(0, 3)) * 3 - rng.randrange(0, 3)
            if ns == 3 and rng.random() < 0.5:
                fine = n * 3 - rng.randrange(0, 3)  # the bad size at the intermediate level instead
            if fine <= 160:
                if rng.random() < 0.5:
                    cols = fine
                else:
                    rows = fine
    # keep the coarsest interval well inside the coarsest image (an interval reaching past the image is C02's finding)
    base0 = f ** (ns - 1)
    lo = -rng.choice([1, 2, 3]) * base0 + rng.choice([0, 1])
    hi = rng.choice([1, 2, 3]) * base0 - rng.choice([0, 1])
    bands = ["r", "g", "b"] if rng.random() < 0.2 else None
    left, right = pl.make_pair(rng, rows, cols, lo, hi, bands=bands, masks=rng.random() < 0.5, smooth=True)
    meth = rng.choice(["sad", "zncc", "census"])
    mc = {"matching_cost_method": meth, "window_size": rng.choice([3, 5])}
    if bands:
        mc["band"] = rng.choice(bands)
    pipe = {"matching_cost": mc}
    if rng.random() < 0.3 and not bands:
        pipe["aggregation"] = {"aggregation_method": "cbca", "cbca_distance": 3, "cbca_intensity": 10.0}
    pipe["disparity"] = {"disparity_method": "wta", "invalid_disparity": rng.choice([-9999, "NaN"])}
    if rng.random() < 0.4:
        pipe["filter"] = {"filter_method": "median", "filter_size": 3}
    if rng.random() < 0.4:
        pipe["validation"] = {"validation_method": "cross_checking_accurate"}
    pipe["multiscale"] = {"multiscale_method": "fixed_zoom_pyramid", "num_scales": ns, "scale_factor": f, "marge": rng.choice([0, 1, 2])}
    if rng.random() < 0.5:
        pipe["refinement"] = {"refinement_method": "vfit"}
    if rng.random() < 0.5:
        pipe["filter.after"] = {"filter_method": "median", "filter_size": 3}
    return left, right, pipe, lo, hi


def grid_to_wire(a):
    return [[core.enc(float(v)) for v in row] for row in a]


def same_grid(impl, model_json):
    model = core.dec(model_json)
    if len(model) != impl.shape[0] or (len(model) and len(model[0]) != impl.shape[1]):
        return False, ("shape", list(impl.shape), [len(model), len(model[0]) if model else 0])
    for i in range(impl.shape[0]):
        for j in range(impl.shape[1]):
            a = impl[i, j]
            b = model[i][j]
            if isinstance(b, float):  # nan
                if not np.isnan(a):
                    return False, (i, j, float(a), "nan")
            elif np.isnan(a) or Fraction(float(a)) != b:
                return False, (i, j, float(a), str(b))
    return True, None


def check_case(ctx, report, left, right, pipe, lo, hi, label, machine=None):
    ns = pipe["multiscale"]["num_scales"]
    f = pipe["multiscale"]["scale_factor"]
    marge = pipe["multiscale"]["marge"]
    rows, cols = int(left.sizes["row"]), int(left.sizes["col"])
    case = {"label": label, "pipeline": pipe, "shape": [rows, cols], "disp": [lo, hi], "seed": ctx.seed,
            "bands": "band_im" in left.coords, "mask": "msk" in left}
    fp = (ds_fingerprint(left), ds_fingerprint(right))
    try:
        out_l, out_r, m = run_multiscale_case(left, right, pipe, machine)
    except Exception as exc:  # pylint: disable=broad-except
        # a legal multiscale pipeline on a well-formed pair: the run must complete, whatever it computes
        report.case(key=json.dumps([label, pipe, rows, cols, lo, hi], sort_keys=True), nontrivial=True, sample={"pipeline": pipe})
        report.hit("scales_executed")
        report.fail("scales_executed", "run_raises_" + type(exc).__name__, case, {"exception": str(exc)[:300]},
                    "pandora.run raised on a legal multiscale pipeline")
        return
    report.case(key=json.dumps([label, pipe, rows, cols, lo, hi], sort_keys=True), nontrivial=True,
                sample={"pipeline": pipe, "shape": [rows, cols], "levels": [(l["scale"], l["rows"], l["cols"]) for l in m.levels]})
    report.count(f"scales_{ns}")
    report.count(f"factor_{f}")
    # ---- scales executed, coarse to fine
    report.hit("scales_executed")
    scales = [l["scale"] for l in m.levels]
    if scales != list(range(ns - 1, -1, -1)):
        trig = "multiscale_never_runs" if scales == [0] else "wrong_scales"
        report.fail("scales_executed", trig, case, {"matching_cost_scales": scales}, f"expected {list(range(ns - 1, -1, -1))}")
        return
    # ---- image sizes per level
    exp_r = ctx.lean.call("C15.sizes", n=rows, f=f, num_scales=ns)
    exp_c = ctx.lean.call("C15.sizes", n=cols, f=f, num_scales=ns)
    report.hit("sizes_per_scale")
    got = [(l["rows"], l["cols"]) for l in m.levels]
    if got != list(zip(exp_r, exp_c)):
        report.fail("sizes_per_scale", "sizes", case, {"sizes": got}, f"expected {list(zip(exp_r, exp_c))}")
    # ---- coarsest interval = user / f^(ns-1)
    report.hit("coarsest_interval")
    for name, user in (("disp_min", lo), ("disp_max", hi)):
        want = core.dec(ctx.lean.call("C15.bounds", user=user, f=f, num_scales=ns, k=1))
        g = m.levels[0][name]
        if not np.allclose(g, float(want), rtol=1e-6, atol=1e-6) or float(want) != float(Fraction(user, f ** (ns - 1))):
            report.fail("coarsest_interval", name, case, {"grid_values": sorted(set(np.round(g.ravel(), 9).tolist()))[:5]}, f"expected {want}")
    # ---- finer levels: interval rule
    for k, inp in enumerate(m.ms_inputs):
        lvl = m.levels[k + 1]
        model = ctx.lean.call("C15.next", disp=grid_to_wire(inp["disp"]), flags=inp["flags"].tolist(),
                              window_size=inp["window_size"], marge=marge, f=f,
                              user_min=core.enc(inp["user_min"]), user_max=core.enc(inp["user_max"]),
                              fine_rows=lvl["rows"], fine_cols=lvl["cols"], split=split_for(inp["window_size"]))
        # the model through the chunk loop (literals of the source) is the direct model (theorem
        # source_multiscaleRange_spec; evaluated here so that the executable chunked model is exercised on every level)
        if model.get("blocked_min") != model["min"] or model.get("blocked_max") != model["max"]:
            report.disagree(f"level {lvl['scale']} chunk loop", dict(case, level=lvl["scale"]), "model through the chunk loop", "direct model")
        if max(inp["disp"].shape) - inp["window_size"] + 1 > block_desc()["stepY"]:
            report.count("levels_cut_in_several_chunks")
        # the user interval handed to disparity_range after the level of scale s is user / f^s (theorem
        # user_interval_at_scale): the recorded value must be that, and the specification is evaluated with it
        s_scale = inp["scale"]
        for nm, user in (("user_min", lo), ("user_max", hi)):
            want = Fraction(user, f ** s_scale)
            report.hit("invalid_parent_full_interval")
            if abs(inp[nm] - float(want)) > 1e-6 * max(1.0, abs(float(want))):
                report.fail("invalid_parent_full_interval", nm, dict(case, level=s_scale),
                            {"user_interval_given_to_disparity_range": inp[nm]}, f"expected {want} (user interval / factor^scale)")
        report.hit("finer_interval_rule")
        for name, key, skey in (("disp_min", "min", "spec_min"), ("disp_max", "max", "spec_max")):
            g = lvl[name]
            if g.shape[0] < lvl["rows"] or g.shape[1] < lvl["cols"]:
                report.fail("finer_interval_rule", "grid_smaller_than_image", case, {"grid": list(g.shape), "image": [lvl["rows"], lvl["cols"]]})
                continue
            crop = g[: lvl["rows"], : lvl["cols"]]
            ok, d = same_grid(crop, model[key])
            if not ok:
                report.disagree(f"level {lvl['scale']} {name}", dict(case, level=lvl["scale"]), d, "model")
            ok2, d2 = same_grid(crop, model[skey])
            if not ok2:
                report.fail("finer_interval_rule", name, dict(case, level=lvl["scale"]), {"first_difference": d2})
        if not model["parent_near"]:
            report.fail("finer_interval_rule", "parent_far", case, None)
        n_inv = int(((inp["flags"] & 963) != 0).sum())
        report.count("coarse_invalid_pixels", n_inv)
        if n_inv:
            report.hit("invalid_parent_full_interval")
    # ---- steps after the multiscale step run once, at full resolution
    report.hit("after_multiscale_once")
    names = list(pipe)
    after = names[names.index("multiscale") + 1:]
    for n in after:
        evs = [e for e in m.cb_log if e[0] == "run" and e[2] == n]
        if [e[3] for e in evs] != [0] * len(evs) or len({e[1] for e in evs}) != len(evs):
            report.fail("after_multiscale_once", n.split(".")[0], case, {"events": [(e[1], e[3]) for e in evs]})
    # ---- output shape, inputs untouched
    report.hit("output_shape")
    if tuple(out_l["disparity_map"].shape) != (rows, cols):
        report.fail("output_shape", "left", case, {"shape": list(out_l["disparity_map"].shape)})
    report.hit("inputs_untouched")
    if (ds_fingerprint(left), ds_fingerprint(right)) != fp:
        trig = ("multiband_" if "band_im" in left.coords else "mono_") + ("mask" if "msk" in left else "nomask")
        report.fail("inputs_untouched", trig, case, None, "an input dataset was modified by pandora.run")
    # ---- every level of an image is made from that image alone: the levels of the right image do not change when only the
    #      left input changes (its mask here), and conversely
    if "msk" in left and "msk" in right and ctx.rng.random() < 0.6:
        import random as _random

        import zlib

        r3 = _random.Random(zlib.crc32(label.encode()))
        for side, other, key in (("left", "right", "fp_right"), ("right", "left", "fp_left")):
            l2, r2 = left.copy(deep=True), right.copy(deep=True)
            tgt = l2 if side == "left" else r2
            mk = np.array(tgt["msk"].data)
            r0, c0 = r3.randrange(0, max(1, rows - 4)), r3.randrange(0, max(1, cols - 6))
            mk[r0:r0 + 4, c0:c0 + 6] = np.where(mk[r0:r0 + 4, c0:c0 + 6] == 0, 2, 0)
            tgt["msk"].data[:] = mk
            try:
                _l, _r, m2 = run_multiscale_case(l2, r2, pipe)
            except Exception:  # pylint: disable=broad-except
                report.count("levels_metamorphic_run_raised")
                continue
            report.hit("levels_from_own_image")
            a = [l[key] for l in m.levels]
            b = [l[key] for l in m2.levels]
            if a != b:
                lv = [m.levels[i]["scale"] for i in range(min(len(a), len(b))) if a[i] != b[i]]
                report.fail("scales_executed", f"{other}_levels_depend_on_{side}_mask", dict(case, changed=side, block=[r0, c0]),
                            {"levels_that_changed": lv},
                            f"changing only the {side} mask changed the {other} image/mask seen at scale(s) {lv}")


def _exact(a):
    """numpy float array -> nested lists of Fractions / nan (what the translator's evaluator works on)"""
    from translator import pyarr

    return [[pyarr.NAN if np.isnan(v) else Fraction(float(v)) for v in row] for row in np.asarray(a, dtype=float)]


def _same_cells(a, b):
    from translator import pyarr

    if len(a) != len(b):
        return False
    for ra, rb in zip(a, b):
        if len(ra) != len(rb):
            return False
        for x, y in zip(ra, rb):
            if pyarr.is_nan(x) != pyarr.is_nan(y) or (not pyarr.is_nan(x) and x != y):
                return False
    return True


KERNEL_SHAPES = [(103, 3), (3, 102), (101, 5), (5, 104), (100, 4), (1, 1), (1, 7), (3, 3), (5, 5), (4, 9), (102, 102)]


def kernel_cross_check(ctx, report, status):
    """T15 (multiscale): the real `disparity_range` / `mask_invalid_disparities` against the translator's exact reading of
    their source (the statement list `Generated/KernelsMultiscale.lean` is printed from; Lean's own reading of that text is
    checked at build time by the generated `example`s).  Compared: both returned maps, their shape, the disparity map
    and the validity mask AFTER the call; user bounds given as arrays with NaN so that the four hoisted scalars differ;
    factor 1 (early return) included.  The scalar glue kernels are compared with CPython on the same expression text."""
    import random
    import types

    from translator import gen_blocks, gen_constants, gen_kernels_multiscale as gkm, pyarr, pyexpr

    try:
        fns = gkm.functions()
        ks = gkm.glue_kernels()
        t8 = gen_blocks.extract()
        consts = {k: v for k, v in gen_constants.extract().items() if isinstance(v, int)}
    except Exception:  # already reported by build_and_audit (translate())  # pylint: disable=broad-except
        return
    fn, mi = fns["disparityRange"], fns["maskInvalidDisparities"]
    rng = random.Random(1515 + ctx.seed)
    shapes = KERNEL_SHAPES + [None] * ctx.n(55, 400)
    n_all_invalid = 0
    for idx, shape in enumerate(shapes):
        d = gen_direct(rng, shape)
        rows, cols = d["shape"]
        w, marge = d["window_size"], d["marge"]
        f = 1 if idx % 7 == 3 else d["f"]
        disp, flags = np.array(d["disp"]), np.array(d["flags"])
        if idx % 5 == 1 and rows >= w and cols >= w:  # a whole window (and more) invalid
            r0, c0 = rng.randrange(rows - w + 1), rng.randrange(cols - w + 1)
            flags[max(r0 - 1, 0):r0 + w + 1, max(c0 - 1, 0):c0 + w + 1] |= rng.choice([1, 2, 64, 128, 256, 512])
            n_all_invalid += 1
        if idx % 11 == 5:
            flags[:, :] |= 64  # everything invalid
        if idx % 6 == 2:  # a NaN disparity on a pixel that is not flagged invalid (boundary of the theorems' `hnum`)
            disp[rng.randrange(rows), rng.randrange(cols)] = np.nan
        dmin = [d["user_min"], d["user_min"] - rng.choice([0, 1.5, 2]), float("nan")]
        dmax = [d["user_max"], float("nan"), d["user_max"] + rng.choice([0, 0.5, 3])]
        users = {"nanmin_disp_min": Fraction(min(dmin[:2])), "nanmax_disp_min": Fraction(max(dmin[:2])),
                 "nanmin_disp_max": Fraction(min(dmax[0], dmax[2])), "nanmax_disp_max": Fraction(max(dmax[0], dmax[2]))}
        dtype = rng.choice([np.float32, np.float64])
        try:
            mn, mx, disp_after, flags_after = md.disparity_range_raw(disp, flags, w, marge, f, dmin, dmax, dtype=dtype)
            real = ("ok", _exact(mn), _exact(mx))
        except Exception as exc:  # pylint: disable=broad-except
            real = ("raised", type(exc).__name__)
            disp_after, flags_after = np.array(disp, dtype=dtype), flags
        exact_in = _exact(np.array(disp, dtype=dtype))
        st = pyarr.PStore([exact_in])
        try:
            a, b, shp = gkm.evaluate_range(fn, mi, st, rows, cols, 0, flags.tolist(), {"window_size": w, "marge": marge, "scale_factor": f},
                                           users, consts, t8)
            mine = ("ok", st.arr[a], st.arr[b])
        except (ValueError, IndexError) as exc:
            mine = ("raised", type(exc).__name__)
        report.translator_checks += 1
        what = f"a {rows}x{cols} level, window {w}, marge {marge}, factor {f}"
        if real[0] != mine[0]:
            status.problem("translator", f"translated disparity_range on {what}: real function {real[0]} ({real[1] if real[0] == 'raised' else ''}), "
                           f"evaluator {mine[0]} ({mine[1] if mine[0] == 'raised' else ''})")
            return
        if real[0] == "ok" and not (_same_cells(real[1], mine[1]) and _same_cells(real[2], mine[2])):
            status.problem("translator", f"translated disparity_range evaluates differently from the real function on {what} "
                           f"(min equal: {_same_cells(real[1], mine[1])}, max equal: {_same_cells(real[2], mine[2])})")
            return
        if not _same_cells(_exact(disp_after), st.arr[0]) or not np.array_equal(flags_after, flags):
            status.problem("translator", f"disparity_range modified its input on {what}, the translated program does not")
            return
        if idx % 4 == 0:  # mask_invalid_disparities on its own: result, input afterwards, fresh memory
            out, after, shares = md.mask_invalid_raw(disp, flags, dtype=dtype)
            st2 = pyarr.PStore([exact_in])
            k = gkm.evaluate_mask_invalid(mi, st2, rows, cols, 0, flags.tolist(), consts)
            report.translator_checks += 1
            if not _same_cells(_exact(out), st2.arr[k]) or not _same_cells(_exact(after), st2.arr[0]) or shares:
                status.problem("translator", f"translated mask_invalid_disparities differs from the real function on {what} "
                               f"(shares memory with its input: {shares})")
                return
    report.count("kernel_cross_check_maps", len(shapes))
    report.count("kernel_cross_check_all_invalid_window", n_all_invalid)
    # scalar glue: pyexpr's evaluator against CPython on the expression text itself
    class _Sel:  # left_img["disparity"].sel(band_disp=…)
        def __init__(self, lo, hi):
            self.v = {"min": lo, "max": hi}

        def sel(self, band_disp):
            return self.v[band_disp]

    for _ in range(40):
        lo, hi = Fraction(rng.randrange(-90, 10), rng.choice([1, 2, 4])), Fraction(rng.randrange(-10, 90), rng.choice([1, 2, 4]))
        f, n = rng.choice([2, 2, 3, 4, 5]), rng.choice([2, 3, 4])
        me = types.SimpleNamespace(scale_factor=f, num_scales=n, disp_min=lo, disp_max=hi, right_disp_min=-hi, right_disp_max=-lo)
        env = {"left_img": {"disparity": _Sel(lo, hi)}, "self": me}
        for name, k in ks.items():
            py = eval(k.source, {"__builtins__": {}}, env)  # pylint: disable=eval-used
            if name.startswith("prepareBound"):
                args = [lo if name.endswith("Min") else hi, f ** n]
            elif name.startswith("prepareRight"):
                args = [lo, hi]
            else:
                args = [{"mcPrepareMin": lo, "mcPrepareMax": hi, "mcPrepareRightMin": -hi, "mcPrepareRightMax": -lo}[name], f]
            res, vals = pyexpr.evaluate(k, *args)
            report.translator_checks += 1
            if res != "ok" or Fraction(vals[0]) != Fraction(py):
                status.problem("translator", f"glue kernel {name}: evaluator gives {res} {vals}, CPython gives {py} on {args}")
                return


def glue_cross_check(ctx, report, status):
    """T15 (multiscale, round 2): the readings of `gen_kernels_multiscale_glue` against the live objects —
    the crop ifs of cv_masked executed by CPython on real arrays, skimage's `pyramid_gaussian` with the pinned arguments
    (the hypothesis `PyramidIsCeil` of `pyramidSizes_generated`), the real `prepare_pyramid` (sizes, order, which arrays
    are shared with the input, input untouched), the real `convert_pyramid_to_dataset`, the real `read_multiscale_params`,
    pyexpr's evaluator of the user-bound kernels against CPython."""
    import ast
    import random

    import xarray as xr

    from translator import gen_kernels_multiscale_glue as gg, pyexpr
    from translator.common import find_class, find_method, parse

    try:
        parts = gg.parts()
    except Exception:  # already reported by build_and_audit  # pylint: disable=broad-except
        return
    rng = random.Random(2626 + ctx.seed)

    def problem(msg):
        status.problem("translator", msg)

    # --- cv_masked's crop: the if statements themselves, run by CPython on numpy arrays
    fn = find_method(find_class(parse(gg.MC_REL), "AbstractMatchingCost"), "cv_masked")
    ifs = [st for st in fn.body if isinstance(st, ast.If) and any(isinstance(x, ast.Assign) and any(
        isinstance(t, ast.Name) and t.id in ("disp_min", "disp_max") for t in x.targets) for x in ast.walk(st))]
    code = compile(ast.Module(body=ifs, type_ignores=[]), "<cv_masked crop>", "exec")
    dims = parts["cv_crop"]["dims"]
    for _ in range(40):
        ny, nx = rng.randrange(1, 9), rng.randrange(1, 9)
        sh = (max(ny + rng.choice([-2, 0, 1, 2]), 1), max(nx + rng.choice([-1, 0, 1, 3]), 1))
        base = np.arange(sh[0] * sh[1], dtype=float).reshape(sh)
        env = {"disp_min": base.copy(), "disp_max": base.copy() + 1000, dims[0]: ny, dims[1]: nx}
        exec(code, {"np": np}, env)  # pylint: disable=exec-used
        (smin, omin), (smax, omax) = gg.eval_cv_crop(parts["cv_crop"], ny, nx, sh, sh)
        report.translator_checks += 1
        ok = env["disp_min"].shape == smin and env["disp_max"].shape == smax
        if ok and all(smin) and all(smax):
            ok = env["disp_min"][0, 0] == base[omin[0], omin[1]] and env["disp_max"][0, 0] == base[omax[0], omax[1]] + 1000
        if not ok:
            problem(f"cv_masked crop: grids of shape {sh} for a {ny}x{nx} cost volume: real {env['disp_min'].shape}/{env['disp_max'].shape}, "
                    f"translated {smin}/{smax} offsets {omin}/{omax}")
            return
    # --- pyramid_gaussian with the pinned arguments: the size rule assumed by pyramidSizes_generated
    from skimage.transform import pyramid_gaussian

    a = parts["prepare_pyramid"]["args"]
    try:
        kw = {"sigma": float(a["sigma"]), "order": int(a["order"]), "mode": a["mode"].strip("'\""), "cval": float(a["cval"])}
    except ValueError:
        kw = None
    if kw is not None:
        for _ in range(25):
            n, m, f, ns = rng.randrange(8, 60), rng.randrange(8, 60), rng.choice([2, 3]), rng.choice([2, 3])
            layers = list(pyramid_gaussian(np.zeros((n, m)), max_layer=ns - 1, downscale=f, channel_axis=None, **kw))
            want_r, want_c, r, c = [], [], n, m
            for _k in range(ns):
                want_r.append(r)
                want_c.append(c)
                r, c = -(-r // f), -(-c // f)
            report.translator_checks += 1
            if [x.shape[0] for x in layers] != want_r or [x.shape[1] for x in layers] != want_c:
                problem(f"pyramid_gaussian({n}x{m}, max_layer={ns - 1}, downscale={f}, pinned arguments) yields "
                        f"{[x.shape for x in layers]}, the hypothesis of pyramidSizes_generated says {list(zip(want_r, want_c))}")
                return
    # --- the real prepare_pyramid / convert_pyramid_to_dataset: sizes, order, sharing, inputs untouched
    from pandora import img_tools

    for trial in range(6):
        n, m, f, ns = rng.randrange(9, 30), rng.randrange(9, 30), rng.choice([2, 3]), rng.choice([2, 3])
        multi = trial % 3 == 2
        data = np.random.default_rng(trial).integers(0, 200, size=((2, n, m) if multi else (n, m))).astype(np.float32)
        dims_ = ["band_im", "row", "col"] if multi else ["row", "col"]
        coords = {"row": np.arange(n), "col": np.arange(m)}
        if multi:
            coords["band_im"] = ["r", "g"]
        msk = np.zeros((n, m), dtype=np.int16)
        msk[0, 0] = 1
        imgs = []
        for _side in range(2):
            ds = xr.Dataset({"im": (dims_, data.copy()), "msk": (["row", "col"], msk.copy())}, coords=coords,
                            attrs={"no_data_img": 0, "valid_pixels": 0, "no_data_mask": 1, "crs": None, "transform": None,
                                   "disparity_source": [-2, 2]})
            imgs.append(ds)
        before = [(d["im"].data.copy(), d["msk"].data.copy()) for d in imgs]
        try:
            pl_, pr_ = img_tools.prepare_pyramid(imgs[0], imgs[1], ns, f)
        except Exception as exc:  # pylint: disable=broad-except
            problem(f"prepare_pyramid raised {type(exc).__name__} on a {n}x{m} pair (multiband={multi})")
            return
        report.translator_checks += 1
        sizes = [int(d.sizes["row"]) for d in pl_]
        model = ctx.lean.call("C15.sizes", n=n, f=f, num_scales=ns) if False else None
        want, r = [], n
        for _k in range(ns):
            want.append(r)
            r = -(-r // f)
        want = want[::-1] if parts["prepare_pyramid"]["reversed"] else want
        if sizes != want:
            problem(f"prepare_pyramid({n}x{m}, num_scales={ns}, factor={f}) returns row sizes {sizes}, translated {want}")
            return
        fine = pl_[-1] if parts["prepare_pyramid"]["reversed"] else pl_[0]
        coarse = [d for d in pl_ if d is not fine]
        shares = any(np.shares_memory(d["im"].data, imgs[0]["im"].data) or np.shares_memory(d["msk"].data, imgs[0]["msk"].data) for d in coarse)
        untouched = all(np.array_equal(d["im"].data, b[0]) and np.array_equal(d["msk"].data, b[1]) for d, b in zip(imgs, before))
        cp = parts["convert_pyramid"]
        if fine is not imgs[0] or (shares and cp["im"] == "fresh" and cp["msk"] == "fresh") or not untouched:
            problem(f"prepare_pyramid: finest level is the input: {fine is imgs[0]}, a coarse level shares memory with the input: {shares}, "
                    f"input untouched: {untouched} (translated: level 0 = original, im {cp['im']}, msk {cp['msk']})")
            return
    # --- read_multiscale_params
    from pandora import check_configuration

    img = xr.Dataset(attrs={"disparity_source": [-1, 1]})
    rk = parts["read_params"]
    for has, ns, f in ((True, 3, 2), (True, 2, 4), (False, 0, 0), (True, 4, 3)):
        cfg = {"pipeline": {"matching_cost": {"matching_cost_method": "zncc"}}}
        if has:
            cfg["pipeline"]["multiscale"] = {"multiscale_method": "fixed_zoom_pyramid", "num_scales": ns, "scale_factor": f}
        real = tuple(int(v) for v in check_configuration.read_multiscale_params(img, img, cfg))
        res, vals = pyexpr.evaluate(rk, None, None, [has], [ns, f])
        report.translator_checks += 1
        if res != "ok" or tuple(int(v) for v in vals) != real:
            problem(f"read_multiscale_params on {cfg['pipeline'].get('multiscale')}: real {real}, translated {res} {vals}")
            return
    for name, k in parts["run_multiscale"]["kernels"].items():
        for _ in range(10):
            b, f = Fraction(rng.randrange(-40, 40), rng.choice([1, 2, 4])), rng.choice([2, 3, 4])
            res, vals = pyexpr.evaluate(k, b, f)
            report.translator_checks += 1
            if res != "ok" or Fraction(vals[0]) != b * f:
                problem(f"glue kernel {name}: evaluator gives {res} {vals} on {b}, {f}")
                return
    report.count("glue_cross_check")


DIRECT_SHAPES_QUICK = [(103, 7), (5, 205), (102, 3), (3, 102), (100, 12), (101, 104)]
DIRECT_SHAPES_THOROUGH = [(3, 3), (5, 5), (99, 4), (4, 101), (201, 6), (6, 203), (104, 104), (205, 103), (7, 302)]


def gen_direct(rng, shape=None):
    """a synthetic coarse level: small integer disparities, invalid blobs (NaN or sentinel disparity on invalid
    pixels only), information bits, shapes straddling the chunk size"""
    if shape is None:
        shape = (rng.randrange(3, 9), rng.randrange(3, 12))
    rows, cols = shape
    w = rng.choice([w for w in (1, 3, 5) if w <= min(rows, cols)])
    nprng = np.random.default_rng(rng.randrange(1 << 30))
    disp = nprng.integers(-6, 7, size=(rows, cols)).astype(np.float64)
    if rng.random() < 0.3:
        disp += nprng.integers(0, 4, size=(rows, cols)) / 4.0
    flags = np.zeros((rows, cols), dtype=int)
    info = nprng.random(size=(rows, cols)) < 0.1
    flags[info] |= nprng.choice([4, 8, 16, 32, 1024, 2048], size=int(info.sum()))
    dens = rng.choice([0.0, 0.05, 0.2, 0.6])
    inv = nprng.random(size=(rows, cols)) < dens
    for _ in range(rng.randrange(0, 3)):  # blobs, touching borders and chunk boundaries
        r0 = rng.choice([0, rows - 2, 98, 99, 100, rng.randrange(rows)]) % rows
        c0 = rng.choice([0, cols - 2, 98, 99, 100, rng.randrange(cols)]) % cols
        inv[r0:r0 + rng.randrange(1, 4), c0:c0 + rng.randrange(1, 5)] = True
    flags[inv] |= nprng.choice([1, 2, 64, 128, 256, 512, 65], size=int(inv.sum()))
    sentinel = rng.choice([float("nan"), -9999.0, 0.0])
    disp[inv] = sentinel
    lo = -rng.choice([2, 3, 7]) / rng.choice([1, 2])
    hi = rng.choice([2, 3, 7]) / rng.choice([1, 2])
    out = {"kind": "direct", "shape": [rows, cols], "window_size": w, "marge": rng.choice([0, 1, 2]),
           "f": rng.choice([2, 2, 3]), "user_min": lo, "user_max": hi, "disp": disp, "flags": flags}
    # the user bounds as ARRAYS (`disp_min: np.ndarray`): the interval is [nanmin(disp_min), nanmax(disp_max)], so the other
    # entries (and a NaN) must not matter; drawn last so that the rest of the case does not depend on it
    spread = rng.choice([0, 0, 1, 2.5])
    out["disp_min_arr"] = [lo + spread, lo, float("nan")] if spread else lo
    out["disp_max_arr"] = [hi - spread, float("nan"), hi] if spread else hi
    return out


def check_direct(ctx, report, d, label):
    """the real `disparity_range` (chunk loop, NaN reset, zoom) on a synthetic level, times the factor as
    `matching_cost_prepare` does, against the model, the model through the chunk loop, and the specification"""
    rows, cols = d["shape"]
    f, w = d["f"], d["window_size"]
    case = {"label": label, "kind": "direct", "shape": d["shape"], "window_size": w, "marge": d["marge"], "f": f,
            "user": [d["user_min"], d["user_max"]], "seed": ctx.seed}
    try:
        mn, mx = md.disparity_range_direct(d["disp"], d["flags"], w, d["marge"], f, d.get("disp_min_arr", d["user_min"]),
                                           d.get("disp_max_arr", d["user_max"]))
        if isinstance(d.get("disp_min_arr"), list):
            report.count("direct_user_bounds_as_arrays")
    except Exception as exc:  # pylint: disable=broad-except
        report.case(key=json.dumps([label, d["shape"], w, d["marge"], f]), nontrivial=True, sample={"shape": d["shape"]})
        report.hit("finer_interval_rule")
        report.fail("finer_interval_rule", "direct_raises_" + type(exc).__name__, case, {"exception": str(exc)[:300]},
                    "disparity_range raised on a well-formed coarse level (window fits in the map)")
        return
    model = ctx.lean.call("C15.next", disp=grid_to_wire(d["disp"]), flags=d["flags"].tolist(), window_size=w,
                          marge=d["marge"], f=f, user_min=core.enc(d["user_min"]), user_max=core.enc(d["user_max"]),
                          fine_rows=f * rows, fine_cols=f * cols, split=split_for(w))
    off = (w - 1) // 2
    interior_valid = int(((d["flags"][off:rows - off, off:cols - off] & 963) == 0).sum()) if rows > 2 * off and cols > 2 * off else 0
    report.case(key=json.dumps([label, d["shape"], w, d["marge"], f]), nontrivial=interior_valid > 0,
                sample={"shape": d["shape"], "window_size": w, "f": f, "interior_valid": interior_valid})
    report.count("direct_disparity_range")
    if max(rows, cols) - w + 1 > block_desc()["stepY"]:
        report.count("direct_cut_in_several_chunks")
    report.hit("finer_interval_rule")
    if ((d["flags"] & 963) != 0).any():
        report.hit("invalid_parent_full_interval")
    for name, g, key, skey, bkey in (("disp_min", mn, "min", "spec_min", "blocked_min"), ("disp_max", mx, "max", "spec_max", "blocked_max")):
        if g.shape != (f * rows, f * cols):
            report.fail("finer_interval_rule", "direct_grid_shape", case, {"grid": list(g.shape), "expected": [f * rows, f * cols]})
            continue
        ok, diff = same_grid(g * f, model[key])
        if not ok:
            report.disagree(f"direct {name}", case, diff, "model")
        if model[bkey] != model[key]:
            report.disagree(f"direct {name} chunk loop", case, "model through the chunk loop", "direct model")
        ok2, d2 = same_grid(g * f, model[skey])
        if not ok2:
            report.fail("finer_interval_rule", "direct_" + name, case, {"first_difference": d2})
    if not model["parent_near"]:
        report.fail("finer_interval_rule", "parent_far", case, None)


def run_direct(ctx, report, seed, shape, label=None):
    import random

    d = gen_direct(random.Random(seed), tuple(shape) if shape else None)
    check_direct(ctx, report, d, label or f"direct_seed={seed},shape={d['shape'][0]}x{d['shape'][1]},given={bool(shape)}")


def check_history(ctx, report, gs_a, gs_b):
    """Two multiscale pipelines with different parameters run one after the other on ONE machine object (seed C15-4:
    a multiscale object kept from the previous run): the second run is judged exactly like a run on a fresh machine."""
    import random

    la, ra, pa, loa, hia = gen_case(random.Random(gs_a))
    lb, rb, pb, lob, hib = gen_case(random.Random(gs_b))
    if pa["multiscale"] == pb["multiscale"]:  # make the two multiscale steps differ
        pb["multiscale"] = dict(pb["multiscale"], marge=(pb["multiscale"]["marge"] + 2) % 4)
    machine = CaptureMachine()
    n0 = len(report.failures)
    check_case(ctx, report, la, ra, pa, loa, hia, f"history={gs_a},{gs_b}:first", machine=machine)
    if len(report.failures) > n0:
        return
    check_case(ctx, report, lb, rb, pb, lob, hib, f"history={gs_a},{gs_b}:second", machine=machine)
    for fl in report.failures[n0:]:
        fl["trigger"] = fl["trigger"] + "/second_run_on_a_used_machine"
    report.count("history_second_run")


def run(ctx, report, status):
    translator_cross_check(report, status)
    kernel_cross_check(ctx, report, status)
    glue_cross_check(ctx, report, status)
    report.rule = (
        "real pandora.run on small pairs with a multiscale step (num_scales 2-3, scale_factor 2-3, marge 0-2, mono/multiband, "
        "with/without masks, optional steps around it) on a machine whose callbacks record image sizes, interval grids and the "
        "coarse disparity handed to run_multiscale; sizes, interval arithmetic and the per-pixel interval of every finer level are "
        "compared exactly with the Lean model and with the specification; non-trivial = every case (>= 2 scales); distinct by "
        "(pipeline, shape, interval). History: two different multiscale pipelines run one after the other on one machine object, the second judged like a fresh run. Direct: the real disparity_range on synthetic coarse levels (integer/quarter disparities, "
        "invalid blobs on borders and chunk boundaries with NaN/sentinel disparities, information bits, windows 1/3/5, shapes "
        "straddling the chunk size 100: 102x3, 103x7, 5x205, 101x104...) against the model, the model through the chunk loop of "
        "the source and the specification (user bounds also given as arrays with NaN); non-trivial = a valid interior pixel. "
        "Translator: the exact evaluator of the statement list Generated/KernelsMultiscale.lean is printed from against the real "
        "disparity_range / mask_invalid_disparities on >= 66 levels (straddling 100, window 1, whole windows invalid, factor 1)"
    )
    rng = ctx.rng
    for name, case in core.load_corpus(PROP):
        import random

        r2 = random.Random(case["gen_seed"])
        left, right, pipe, lo, hi = gen_case(r2, big=case.get("big", False))
        check_case(ctx, report, left, right, pipe, lo, hi, "corpus:" + name)
    for i in range(ctx.n(14, 120)):
        gs = rng.randrange(1 << 30)
        import random

        r2 = random.Random(gs)
        big = (i == 3) or (ctx.thorough and i % 10 == 3)
        left, right, pipe, lo, hi = gen_case(r2, big=big)
        check_case(ctx, report, left, right, pipe, lo, hi, f"gen_seed={gs},big={big}")
    for _ in range(ctx.n(3, 30)):
        check_history(ctx, report, rng.randrange(1 << 30), rng.randrange(1 << 30))
    for shape in DIRECT_SHAPES_QUICK + (DIRECT_SHAPES_THOROUGH if ctx.thorough else []):
        run_direct(ctx, report, rng.randrange(1 << 30), shape)
    for _ in range(ctx.n(30, 600)):
        run_direct(ctx, report, rng.randrange(1 << 30), None)


def search(ctx, report, status):
    import random

    sub = core.Report(PROP, ctx.tier, ctx.seed)
    for i in range(4):
        check_history(ctx, sub, ctx.rng.randrange(1 << 30), ctx.rng.randrange(1 << 30))
        if sub.failures:
            return sub.failures[0]
    for i in range(30):
        gs = ctx.rng.randrange(1 << 30)
        left, right, pipe, lo, hi = gen_case(random.Random(gs))
        check_case(ctx, sub, left, right, pipe, lo, hi, f"gen_seed={gs},big=False")
        if sub.failures:
            return sub.failures[0]
    for i in range(60):
        run_direct(ctx, sub, ctx.rng.randrange(1 << 30), DIRECT_SHAPES_QUICK[i % len(DIRECT_SHAPES_QUICK)] if i % 3 == 0 else None)
        if sub.failures:
            return sub.failures[0]
    return None


def replay(ctx, report, path):
    import random
    import re

    with open(path, encoding="utf-8") as f:
        data = json.load(f)
    case = data.get("input", data)
    md_ = re.search(r"direct_seed=(\d+),shape=(\d+)x(\d+),given=(\w+)", case["label"])
    mh = re.search(r"history=(\d+),(\d+)", case["label"])
    if mh:
        check_history(ctx, report, int(mh.group(1)), int(mh.group(2)))
    elif md_:
        run_direct(ctx, report, int(md_.group(1)), (int(md_.group(2)), int(md_.group(3))) if md_.group(4) == "True" else None,
                   label=case["label"])
    else:
        mo = re.search(r"gen_seed=(\d+),big=(\w+)", case["label"])
        left, right, pipe, lo, hi = gen_case(random.Random(int(mo.group(1))), big=mo.group(2) == "True")
        check_case(ctx, report, left, right, pipe, lo, hi, case["label"])
    for fl in report.failures:
        print("spec failure:", fl["clause"], fl["trigger"], json.dumps(fl["impl"], default=str)[:300], fl["detail"][:200])
    print("replayed: failures=%d disagreements=%d" % (len(report.failures), len(report.disagreements)))
    return 1 if report.failures else 0
