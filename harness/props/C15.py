"""C15 — a multiscale step really processes num_scales scales, coarse to fine."""
from __future__ import annotations

import copy
import json
from fractions import Fraction

import numpy as np

from .. import core
from ..impl import machine_stubs as ms
from ..impl import pipelines as pl
from ..impl.c18_worker import ds_fingerprint

PROP = "C15"


def translate():
    from translator import registry

    return registry.generate("Transitions", "Wiring")


class CaptureMachine(ms.LoggedMachine):
    """the real machine; records what every matching_cost execution sees and what run_multiscale receives"""

    def __init__(self):
        super().__init__()
        self.levels = []
        self.ms_inputs = []

    def matching_cost_prepare(self, cfg, input_step):
        super().matching_cost_prepare(cfg, input_step)
        self.levels.append({
            "scale": int(self.current_scale),
            "rows": int(self.left_img.sizes["row"]), "cols": int(self.left_img.sizes["col"]),
            "disp_min": np.array(self.disp_min, dtype=np.float64), "disp_max": np.array(self.disp_max, dtype=np.float64),
            "right_disp_min": np.array(self.right_disp_min, dtype=np.float64) if self.right_disp_map else None,
            "right_disp_max": np.array(self.right_disp_max, dtype=np.float64) if self.right_disp_map else None,
        })

    def run_multiscale(self, cfg, input_step):
        d = self.left_disparity
        self.ms_inputs.append({
            "scale": int(self.current_scale),
            "disp": np.array(d["disparity_map"].data, dtype=np.float64),
            "flags": np.array(d["validity_mask"].data).astype(int),
            "window_size": int(d.attrs["window_size"]),
            "user_min": float(np.nanmin(np.array(self.dmin_user * self.scale_factor, dtype=np.float64))),
            "user_max": float(np.nanmax(np.array(self.dmax_user * self.scale_factor, dtype=np.float64))),
        })
        super().run_multiscale(cfg, input_step)


def run_multiscale_case(left, right, pipe):
    import pandora
    from pandora.check_configuration import update_conf

    cfg = update_conf({"pipeline": {}}, {"pipeline": copy.deepcopy(pipe)})
    m = CaptureMachine()
    meta = lambda ds: ds if "band_im" in ds.coords else ds.assign_coords(band_im=[None])
    m.check_conf(copy.deepcopy(cfg), meta(left), meta(right))
    cfg["pipeline"] = copy.deepcopy(m.pipeline_cfg["pipeline"])
    out_l, out_r = pandora.run(m, left, right, cfg)
    return out_l, out_r, m


def gen_case(rng, big=False):
    ns = rng.choice([2, 2, 3])
    f = rng.choice([2, 2, 3])
    if big:
        rows, cols = rng.choice([(24, 210), (206, 26)])
    else:
        # the coarsest level must still hold a matching window (images smaller than the window are outside C02's domain)
        base = f ** (ns - 1)
        rows = rng.randrange(7, 11) * base - rng.randrange(0, base)
        cols = rng.randrange(10, 14) * base - rng.randrange(0, base)
        # coarse sizes at which the coordinate arithmetic of zoom(order=0) lands a few ulps past the last sample
        # (29, 50 for factor 3): the last row / column of the finer level must still inherit from its parent
        if f == 3 and rng.random() < 0.35:
            n = rng.choice([29, 29, 50])
            fine = n * 3 - rng.randrange(0, 3) if ns == 2 else (n * 3 - rng.randrange(0, 3)) * 3 - rng.randrange(0, 3)
            if ns == 3 and rng.random() < 0.5:
                fine = n * 3 - rng.randrange(0, 3)  # the bad size at the intermediate level instead
            if fine <= 160:
                if rng.random() < 0.5:
                    cols = fine
                else:
                    rows = fine
    # keep the coarsest interval well inside the coarsest image (an interval reaching past the image is C02's finding)
    base0 = f ** (ns - 1)
    lo = -rng.choice([1, 2, 3]) * base0 + rng.choice([0, 1])
    hi = rng.choice([1, 2, 3]) * base0 - rng.choice([0, 1])
    bands = ["r", "g", "b"] if rng.random() < 0.2 else None
    left, right = pl.make_pair(rng, rows, cols, lo, hi, bands=bands, masks=rng.random() < 0.5, smooth=True)
    meth = rng.choice(["sad", "zncc", "census"])
    mc = {"matching_cost_method": meth, "window_size": rng.choice([3, 5])}
    if bands:
        mc["band"] = rng.choice(bands)
    pipe = {"matching_cost": mc}
    if rng.random() < 0.3 and not bands:
        pipe["aggregation"] = {"aggregation_method": "cbca", "cbca_distance": 3, "cbca_intensity": 10.0}
    pipe["disparity"] = {"disparity_method": "wta", "invalid_disparity": rng.choice([-9999, "NaN"])}
    if rng.random() < 0.4:
        pipe["filter"] = {"filter_method": "median", "filter_size": 3}
    if rng.random() < 0.4:
        pipe["validation"] = {"validation_method": "cross_checking_accurate"}
    pipe["multiscale"] = {"multiscale_method": "fixed_zoom_pyramid", "num_scales": ns, "scale_factor": f, "marge": rng.choice([0, 1, 2])}
    if rng.random() < 0.5:
        pipe["refinement"] = {"refinement_method": "vfit"}
    if rng.random() < 0.5:
        pipe["filter.after"] = {"filter_method": "median", "filter_size": 3}
    return left, right, pipe, lo, hi


def grid_to_wire(a):
    return [[core.enc(float(v)) for v in row] for row in a]


def same_grid(impl, model_json):
    model = core.dec(model_json)
    if len(model) != impl.shape[0] or (len(model) and len(model[0]) != impl.shape[1]):
        return False, ("shape", list(impl.shape), [len(model), len(model[0]) if model else 0])
    for i in range(impl.shape[0]):
        for j in range(impl.shape[1]):
            a = impl[i, j]
            b = model[i][j]
            if isinstance(b, float):  # nan
                if not np.isnan(a):
                    return False, (i, j, float(a), "nan")
            elif np.isnan(a) or Fraction(float(a)) != b:
                return False, (i, j, float(a), str(b))
    return True, None


def check_case(ctx, report, left, right, pipe, lo, hi, label):
    ns = pipe["multiscale"]["num_scales"]
    f = pipe["multiscale"]["scale_factor"]
    marge = pipe["multiscale"]["marge"]
    rows, cols = int(left.sizes["row"]), int(left.sizes["col"])
    case = {"label": label, "pipeline": pipe, "shape": [rows, cols], "disp": [lo, hi], "seed": ctx.seed,
            "bands": "band_im" in left.coords, "mask": "msk" in left}
    fp = (ds_fingerprint(left), ds_fingerprint(right))
    out_l, out_r, m = run_multiscale_case(left, right, pipe)
    report.case(key=json.dumps([label, pipe, rows, cols, lo, hi], sort_keys=True), nontrivial=True,
                sample={"pipeline": pipe, "shape": [rows, cols], "levels": [(l["scale"], l["rows"], l["cols"]) for l in m.levels]})
    report.count(f"scales_{ns}")
    report.count(f"factor_{f}")
    # ---- scales executed, coarse to fine
    report.hit("scales_executed")
    scales = [l["scale"] for l in m.levels]
    if scales != list(range(ns - 1, -1, -1)):
        trig = "multiscale_never_runs" if scales == [0] else "wrong_scales"
        report.fail("scales_executed", trig, case, {"matching_cost_scales": scales}, f"expected {list(range(ns - 1, -1, -1))}")
        return
    # ---- image sizes per level
    exp_r = ctx.lean.call("C15.sizes", n=rows, f=f, num_scales=ns)
    exp_c = ctx.lean.call("C15.sizes", n=cols, f=f, num_scales=ns)
    report.hit("sizes_per_scale")
    got = [(l["rows"], l["cols"]) for l in m.levels]
    if got != list(zip(exp_r, exp_c)):
        report.fail("sizes_per_scale", "sizes", case, {"sizes": got}, f"expected {list(zip(exp_r, exp_c))}")
    # ---- coarsest interval = user / f^(ns-1)
    report.hit("coarsest_interval")
    for name, user in (("disp_min", lo), ("disp_max", hi)):
        want = core.dec(ctx.lean.call("C15.bounds", user=user, f=f, num_scales=ns, k=1))
        g = m.levels[0][name]
        if not np.allclose(g, float(want), rtol=1e-6, atol=1e-6) or float(want) != float(Fraction(user, f ** (ns - 1))):
            report.fail("coarsest_interval", name, case, {"grid_values": sorted(set(np.round(g.ravel(), 9).tolist()))[:5]}, f"expected {want}")
    # ---- finer levels: interval rule
    for k, inp in enumerate(m.ms_inputs):
        lvl = m.levels[k + 1]
        model = ctx.lean.call("C15.next", disp=grid_to_wire(inp["disp"]), flags=inp["flags"].tolist(),
                              window_size=inp["window_size"], marge=marge, f=f,
                              user_min=core.enc(inp["user_min"]), user_max=core.enc(inp["user_max"]),
                              fine_rows=lvl["rows"], fine_cols=lvl["cols"])
        # the user interval handed to disparity_range after the level of scale s is user / f^s (theorem
        # user_interval_at_scale): the recorded value must be that, and the specification is evaluated with it
        s_scale = inp["scale"]
        for nm, user in (("user_min", lo), ("user_max", hi)):
            want = Fraction(user, f ** s_scale)
            report.hit("invalid_parent_full_interval")
            if abs(inp[nm] - float(want)) > 1e-6 * max(1.0, abs(float(want))):
                report.fail("invalid_parent_full_interval", nm, dict(case, level=s_scale),
                            {"user_interval_given_to_disparity_range": inp[nm]}, f"expected {want} (user interval / factor^scale)")
        report.hit("finer_interval_rule")
        for name, key, skey in (("disp_min", "min", "spec_min"), ("disp_max", "max", "spec_max")):
            g = lvl[name]
            if g.shape[0] < lvl["rows"] or g.shape[1] < lvl["cols"]:
                report.fail("finer_interval_rule", "grid_smaller_than_image", case, {"grid": list(g.shape), "image": [lvl["rows"], lvl["cols"]]})
                continue
            crop = g[: lvl["rows"], : lvl["cols"]]
            ok, d = same_grid(crop, model[key])
            if not ok:
                report.disagree(f"level {lvl['scale']} {name}", dict(case, level=lvl["scale"]), d, "model")
            ok2, d2 = same_grid(crop, model[skey])
            if not ok2:
                report.fail("finer_interval_rule", name, dict(case, level=lvl["scale"]), {"first_difference": d2})
        if not model["parent_near"]:
            report.fail("finer_interval_rule", "parent_far", case, None)
        n_inv = int(((inp["flags"] & 963) != 0).sum())
        report.count("coarse_invalid_pixels", n_inv)
        if n_inv:
            report.hit("invalid_parent_full_interval")
    # ---- steps after the multiscale step run once, at full resolution
    report.hit("after_multiscale_once")
    names = list(pipe)
    after = names[names.index("multiscale") + 1:]
    for n in after:
        evs = [e for e in m.cb_log if e[0] == "run" and e[2] == n]
        if [e[3] for e in evs] != [0] * len(evs) or len({e[1] for e in evs}) != len(evs):
            report.fail("after_multiscale_once", n.split(".")[0], case, {"events": [(e[1], e[3]) for e in evs]})
    # ---- output shape, inputs untouched
    report.hit("output_shape")
    if tuple(out_l["disparity_map"].shape) != (rows, cols):
        report.fail("output_shape", "left", case, {"shape": list(out_l["disparity_map"].shape)})
    report.hit("inputs_untouched")
    if (ds_fingerprint(left), ds_fingerprint(right)) != fp:
        trig = ("multiband_" if "band_im" in left.coords else "mono_") + ("mask" if "msk" in left else "nomask")
        report.fail("inputs_untouched", trig, case, None, "an input dataset was modified by pandora.run")


def run(ctx, report, status):
    report.rule = (
        "real pandora.run on small pairs with a multiscale step (num_scales 2-3, scale_factor 2-3, marge 0-2, mono/multiband, "
        "with/without masks, optional steps around it) on a machine whose callbacks record image sizes, interval grids and the "
        "coarse disparity handed to run_multiscale; sizes, interval arithmetic and the per-pixel interval of every finer level are "
        "compared exactly with the Lean model and with the specification; non-trivial = every case (>= 2 scales); distinct by "
        "(pipeline, shape, interval)"
    )
    rng = ctx.rng
    for name, case in core.load_corpus(PROP):
        import random

        r2 = random.Random(case["gen_seed"])
        left, right, pipe, lo, hi = gen_case(r2, big=case.get("big", False))
        check_case(ctx, report, left, right, pipe, lo, hi, "corpus:" + name)
    for i in range(ctx.n(14, 120)):
        gs = rng.randrange(1 << 30)
        import random

        r2 = random.Random(gs)
        big = (i == 3) or (ctx.thorough and i % 10 == 3)
        left, right, pipe, lo, hi = gen_case(r2, big=big)
        check_case(ctx, report, left, right, pipe, lo, hi, f"gen_seed={gs},big={big}")


def search(ctx, report, status):
    import random

    sub = core.Report(PROP, ctx.tier, ctx.seed)
    for i in range(30):
        gs = ctx.rng.randrange(1 << 30)
        left, right, pipe, lo, hi = gen_case(random.Random(gs))
        check_case(ctx, sub, left, right, pipe, lo, hi, f"gen_seed={gs},big=False")
        if sub.failures:
            return sub.failures[0]
    return None


def replay(ctx, report, path):
    import random
    import re

    with open(path, encoding="utf-8") as f:
        data = json.load(f)
    case = data.get("input", data)
    mo = re.search(r"gen_seed=(\d+),big=(\w+)", case["label"])
    left, right, pipe, lo, hi = gen_case(random.Random(int(mo.group(1))), big=mo.group(2) == "True")
    check_case(ctx, report, left, right, pipe, lo, hi, case["label"])
    for fl in report.failures:
        print("spec failure:", fl["clause"], fl["trigger"], json.dumps(fl["impl"], default=str)[:300], fl["detail"][:200])
    print("replayed: failures=%d disagreements=%d" % (len(report.failures), len(report.disagreements)))
    return 1 if report.failures else 0
