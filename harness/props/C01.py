"""C01 — accepted pipelines are exactly the documented automaton and run as written."""
from __future__ import annotations

import itertools
import json

from .. import core
from ..impl import machine_stubs as ms

PROP = "C01"
KINDS = ms.KINDS


def translate():
    from translator import registry

    return registry.generate("Transitions")


def live_tables():
    from pandora.state_machine import PandoraMachine

    def norm(rows):
        out = []
        for r in rows:
            d = {"trigger": r["trigger"], "source": r["source"], "dest": r["dest"]}
            for k in ("conditions", "prepare", "after"):
                v = r.get(k, [])
                d[k] = [v] if isinstance(v, str) else list(v)
            out.append(d)
        return out

    return norm(PandoraMachine._transitions_run), norm(PandoraMachine._transitions_check)  # pylint: disable=protected-access


def effective_scales(names, n):
    """what pandora.run will read: the literal key "multiscale" carries num_scales"""
    return n if "multiscale" in names else 1


def make_history(names, n, outcomes=None, extra_ops=()):
    ops = [{"op": "check", "names": names, "outcomes": outcomes or []}]
    ops.append({"op": "run", "names": names, "num_scales": effective_scales(names, n)})
    ops.append({"op": "check", "names": names, "outcomes": outcomes or []})
    ops.append({"op": "run", "names": names, "num_scales": effective_scales(names, n)})
    ops.extend(extra_ops)
    return ops


def decorate(rng, kinds):
    """kind list -> step names with '.suffix' decoration, unique keys"""
    used = set()
    out = []
    for k in kinds:
        name = k
        if name in used or rng.random() < 0.25:
            i = 1
            while f"{k}.{i}" in used or rng.random() < 0.2:
                i += 1
            name = f"{k}.{i}" if rng.random() < 0.8 else f"{k}.s{i}"
            while name in used:  # step names are dictionary keys: always distinct
                name = name + ".x"
        used.add(name)
        out.append(name)
    return out


def random_kinds(rng):
    r = rng.random()
    if r < 0.7:  # biased towards legal paths
        ks = ["matching_cost"]
        for _ in range(rng.randrange(0, 4)):
            ks.append(rng.choice(["aggregation", "optimization", "semantic_segmentation", "cost_volume_confidence"]))
        if rng.random() < 0.9:
            ks.append("disparity")
            for _ in range(rng.randrange(0, 6)):
                ks.append(rng.choice(["filter", "refinement", "validation", "multiscale"]))
        if rng.random() < 0.3 and ks:  # one mutation
            i = rng.randrange(len(ks))
            m = rng.random()
            if m < 0.3:
                del ks[i]
            elif m < 0.6:
                ks.insert(i, rng.choice(KINDS))
            else:
                ks[i] = rng.choice(KINDS)
        return ks
    return [rng.choice(KINDS) for _ in range(rng.randrange(0, 8))]


def check_case(ctx, report, ops, tbl_run, tbl_check, label):
    """Run one history on the implementation and on the model, compare, evaluate the spec on the impl."""
    impl = ms.run_history(ops)
    model = ctx.lean.call("C01.history", tbl_check=tbl_check, tbl_run=tbl_run, ops=ops)
    names = ops[0]["names"]
    key = (label, tuple(names), ops[1].get("num_scales"), json.dumps(ops[0].get("outcomes", [])))
    nontrivial = len(names) > 0
    report.case(key=key, nontrivial=nontrivial,
                sample={"ops": ops[:2], "impl_first": {"res": impl[0]["res"], "trace_len": len(impl[0]["trace"])}})
    injected = ops[0].get("outcomes") or []
    for i, (op, a, b) in enumerate(zip(ops, impl, model)):
        if a.get("skipped") or b.get("skipped"):
            if a.get("skipped") != b.get("skipped"):
                report.disagree("skipped", {"ops": ops, "index": i}, a, b)
            continue
        # ---- correspondence model <-> implementation
        for fld in ("res", "trace"):
            if a[fld] != b[fld]:
                report.disagree(f"{op['op']}.{fld}", {"ops": ops, "index": i}, a[fld], b[fld])
        if a["res"] == "ok":
            am, bm = a["machine"], b["machine"]
            if (am["state"], am["triggers"], am["right_disp_map"]) != (bm["state"], sorted(bm["triggers"]), bm["right_disp_map"]):
                report.disagree(f"{op['op']}.machine", {"ops": ops, "index": i}, am, bm)
        # ---- specification evaluated on the implementation's behaviour
        is_path = b["spec_is_path"]
        case = {"ops": ops, "index": i}
        if op["op"] == "check":
            has_val = any(n.split(".")[0] == "validation" for n in op["names"])
            bad = [o for o in injected if o[1] in op["names"] and (not o[2] or has_val)]
            expect_ok = is_path and not bad
            if expect_ok:
                report.hit("accept_iff_path:accepted")
            else:
                report.hit("accept_iff_path:rejected")
            if (a["res"] == "ok") != expect_ok:
                trig = "legal_path_rejected" if is_path and not bad else "illegal_path_accepted"
                report.fail("accept_iff_path", trig, case, a, f"is_path={is_path} injected={bad}")
            elif a["res"] == "ok":
                if a["trace"] != b["spec_trace"]:
                    report.fail("trace_once_per_scale_in_order", "check_trace", case, a, "check callbacks differ from the configured order")
                if a["machine"]["state"] != "begin" or a["machine"]["triggers"]:
                    report.fail("after_check_initial", "leftover", case, a)
            else:
                # (theorem checkConf_rejects_not_path: when no callback raised something else first)
                if not is_path and not bad and a["res"] != "seq_error":
                    report.fail("reject_is_sequencing_error", "wrong_error", case, a)
                if any(e[0] == "run" for e in a["trace"]):
                    report.fail("reject_no_partial_effect", "ran", case, a)
        else:
            if i > 0 and impl[i - 1].get("res") == "ok":
                report.hit("run_no_error")
                if a["res"] != "ok":
                    report.fail("run_no_error", "accepted_pipeline_raises", case, a)
                else:
                    if a["trace"] != b["spec_trace"]:
                        report.fail("trace_once_per_scale_in_order", "run_trace", case, a,
                                    "run callbacks differ from: each step once per processed scale, in order, left then right")
                    if a.get("foreign_config"):
                        report.fail("trace_once_per_scale_in_order", "step_object_from_another_configuration", case, a,
                                    f"steps executed with a step object built from another step's configuration: {a['foreign_config']}")
                    if any(e[4] for e in a["trace"]) != any(n.split(".")[0] == "validation" for n in op["names"]):
                        report.fail("trace_right_iff_validation", "right", case, a)
                    if a["machine"]["state"] != "begin" or a["machine"]["triggers"]:
                        report.fail("after_run_initial", "leftover", case, a)
                    if op["num_scales"] > 1:
                        report.hit("multiscale_runs")
    # second call identical (ops[2], ops[3] repeat ops[0], ops[1])
    if len(impl) >= 4 and not impl[3].get("skipped") and impl[0]["res"] == "ok":
        report.hit("second_call_identical")
        for j in (0, 1):
            x, y = impl[j], impl[j + 2]
            if (x["res"], x["trace"], x["machine"]) != (y["res"], y["trace"], y["machine"]):
                report.fail("second_call_identical", "differs", {"ops": ops, "index": j + 2}, y)


def translator_cross_check(report, status):
    """the tables the translator read from the source text equal the live class attributes"""
    from translator import t1_transitions

    live_run, live_check = live_tables()
    try:
        gen = t1_transitions.extract()
    except Exception:  # already reported by build_and_audit
        return live_run, live_check
    report.translator_checks += 2
    if gen["run"] != live_run or gen["check"] != live_check:
        status.problem("translator", "generated transition tables differ from the live PandoraMachine tables")
    return live_run, live_check


def run(ctx, report, status):
    tbl_run, tbl_check = translator_cross_check(report, status)
    report.rule = (
        "histories [check p, run p, check p, run p] on one real PandoraMachine (real callbacks, stub step classes): "
        "p ranges over all kind lists up to a length (exhaustive) and random decorated lists biased to legal paths, "
        "with injected callback failures and 1-3 scales; plus mixed histories of two pipelines on one machine and histories [check p, run p, run p(, run p)] without a new check between the runs; non-trivial = non-empty pipeline; distinct by (p, scales, injections)"
    )
    rng = ctx.rng
    # corpus first
    for name, case in core.load_corpus(PROP):
        check_case(ctx, report, case["ops"], tbl_run, tbl_check, "corpus:" + name)
    # exhaustive small scope
    maxlen = ctx.n(3, 5)
    for length in range(0, maxlen + 1):
        for kinds in itertools.product(KINDS, repeat=length):
            # prune hopeless prefixes in the thorough tier beyond length 3: keep lists whose first 2 steps are legal or short
            if length > 3 and not (kinds[0] == "matching_cost"):
                continue
            names = decorate_plain(kinds)
            n = 2 if "multiscale" in names else 1
            check_case(ctx, report, make_history(names, n), tbl_run, tbl_check, "exh")
    report.count("exhaustive_maxlen", maxlen)
    # random decorated
    for _ in range(ctx.n(600, 8000)):
        kinds = random_kinds(rng)
        names = decorate(rng, kinds)
        n = rng.choice([1, 2, 2, 3])
        outcomes = []
        if rng.random() < 0.25 and names:
            nm = rng.choice(names)
            cb = nm.split(".")[0] + "_check_conf"
            outcomes.append([cb, nm, rng.random() < 0.4, rng.choice(["seq", "other"])])
        check_case(ctx, report, make_history(names, n, outcomes), tbl_run, tbl_check, "rnd")
        report.count(f"len_{min(len(names), 9)}")
        report.count(f"scales_{effective_scales(names, n)}")
    mixed_history(ctx, report, tbl_run, tbl_check)
    rerun_history(ctx, report, tbl_run, tbl_check)


def rerun_history(ctx, report, tbl_run, tbl_check):
    """check p, run p, run p, run p on ONE machine, without a new check between the runs (seed C01-5: something the check
    left on the machine is consumed by the first run).  Every run of the accepted pipeline must succeed with the trace of
    the first one and leave the machine as the first one left it."""
    rng = ctx.rng
    fixed = [["matching_cost", "disparity", "validation.lr"], ["matching_cost.a", "disparity", "validation.x", "filter"],
             ["matching_cost", "cost_volume_confidence.c", "disparity", "refinement", "validation.1", "multiscale"]]
    for k in range(ctx.n(120, 1500)):
        if k < len(fixed):
            names = fixed[k]
        else:
            names = decorate(rng, random_kinds(rng))
        n = rng.choice([1, 2, 3])
        ops = [{"op": "check", "names": names, "outcomes": []}]
        ops += [{"op": "run", "names": names, "num_scales": effective_scales(names, n)} for _ in range(rng.randrange(2, 4))]
        check_rerun(ctx, report, ops, tbl_run, tbl_check)


def is_rerun_history(ops):
    return len(ops) >= 3 and ops[0]["op"] == "check" and all(o["op"] == "run" for o in ops[1:])


def check_rerun(ctx, report, ops, tbl_run, tbl_check):
    names = ops[0]["names"]
    impl = ms.run_history(ops)
    model = ctx.lean.call("C01.history", tbl_check=tbl_check, tbl_run=tbl_run, ops=ops)
    report.case(key=("rerun", json.dumps(ops)), nontrivial=bool(names))
    if impl[0].get("res") != "ok":
        return
    report.hit("second_call_identical:run_after_run")
    first = impl[1]
    for i in range(1, len(ops)):
        a, b = impl[i], model[i]
        case = {"ops": ops, "index": i}
        if a.get("skipped") or b.get("skipped"):
            break
        if (a["res"], a["trace"]) != (b["res"], b["trace"]):
            report.disagree("rerun.run", case, {"res": a["res"], "trace": a["trace"]}, {"res": b["res"], "trace": b["trace"]})
        report.hit("run_no_error")
        if a["res"] != "ok":
            report.fail("run_no_error", "accepted_pipeline_raises_on_a_later_run", case, a)
            break
        if a["trace"] != b["spec_trace"]:
            report.fail("trace_once_per_scale_in_order", "run_trace", case, a,
                        "run callbacks differ from: each step once per processed scale, in order, left then right")
        if i > 1 and (a["res"], a["trace"], a["machine"]) != (first["res"], first["trace"], first["machine"]):
            report.fail("second_call_identical", "run_after_run_differs", case, a)
        if a["machine"]["state"] != "begin" or a["machine"]["triggers"]:
            report.fail("after_run_initial", "leftover", case, a)


def mixed_history(ctx, report, tbl_run, tbl_check):
    """histories on ONE machine that mix two different accepted pipelines: check p1, run p1, check p2, run p2, run p1 ...
    (each run is preceded by a check of the same pipeline somewhere earlier and the machine was last checked with it)"""
    rng = ctx.rng
    for _ in range(ctx.n(150, 2000)):
        ps = []
        while len(ps) < 2:
            kinds = random_kinds(rng)
            names = decorate(rng, kinds)
            ps.append(names)
        ops = []
        for _k in range(rng.randrange(2, 5)):
            names = rng.choice(ps)
            n = rng.choice([1, 2, 3])
            ops.append({"op": "check", "names": names, "outcomes": []})
            ops.append({"op": "run", "names": names, "num_scales": effective_scales(names, n)})
        check_mixed(ctx, report, ops, tbl_run, tbl_check)


def is_mixed_history(ops):
    return any(o["names"] != ops[0]["names"] for o in ops)


def check_mixed(ctx, report, ops, tbl_run, tbl_check):
    impl = ms.run_history(ops)
    model = ctx.lean.call("C01.history", tbl_check=tbl_check, tbl_run=tbl_run, ops=ops)
    report.case(key=("mixed", json.dumps(ops)), nontrivial=True)
    for i, (op, a, b) in enumerate(zip(ops, impl, model)):
        if a.get("skipped") or b.get("skipped"):
            break
        case = {"ops": ops, "index": i}
        if (a["res"], a["trace"]) != (b["res"], b["trace"]):
            report.disagree(f"mixed.{op['op']}", case, {"res": a["res"], "trace": a["trace"]}, {"res": b["res"], "trace": b["trace"]})
        if a["res"] == "ok" and op["op"] == "run":
            report.hit("trace_once_per_scale_in_order:mixed_history")
            if a.get("foreign_config"):
                report.fail("trace_once_per_scale_in_order", "step_object_from_another_configuration", case, a,
                            f"steps executed with a step object built from another step's configuration: {a['foreign_config']}")
            # the right products are governed by the pipeline that was checked last
            if a["trace"] != b["spec_trace"] and not b["machine"]["right_disp_map"]:
                report.fail("trace_once_per_scale_in_order", "run_trace", case, a)
        if a["res"] != "ok":
            break


def decorate_plain(kinds):
    used = {}
    out = []
    for k in kinds:
        c = used.get(k, 0)
        out.append(k if c == 0 else f"{k}.{c}")
        used[k] = c + 1
    return out


def search(ctx, report, status):
    """Directed search after a broken obligation: all kind lists of length <= 4 through the real check_conf and
    run, with the documented automaton (Lean `isPath`, `expectedCheck`, `expectedRun`) as oracle."""
    tbl_run, tbl_check = live_tables()
    sub = core.Report(PROP, ctx.tier, ctx.seed)
    for length in range(0, 5):
        for kinds in itertools.product(KINDS, repeat=length):
            if length > 3 and kinds[0] != "matching_cost":
                continue
            names = decorate_plain(kinds)
            check_case(ctx, sub, make_history(names, 2 if "multiscale" in names else 1), tbl_run, tbl_check, "search")
            if sub.failures:
                return sub.failures[0]
    rng = ctx.rng
    for _ in range(3000):
        names = decorate(rng, random_kinds(rng))
        check_case(ctx, sub, make_history(names, rng.choice([1, 2, 3])), tbl_run, tbl_check, "search")
        if sub.failures:
            return sub.failures[0]
    return None


def replay(ctx, report, path):
    with open(path, encoding="utf-8") as f:
        data = json.load(f)
    tbl_run, tbl_check = live_tables()
    ops = data["input"]["ops"] if "input" in data else data["ops"]
    if is_mixed_history(ops):
        check_mixed(ctx, report, ops, tbl_run, tbl_check)
    elif is_rerun_history(ops):
        check_rerun(ctx, report, ops, tbl_run, tbl_check)
    else:
        check_case(ctx, report, ops, tbl_run, tbl_check, "replay")
    for fl in report.failures:
        print("spec failure:", fl["clause"], fl["trigger"], json.dumps(fl["case"])[:400])
    for d in report.disagreements:
        print("disagreement:", json.dumps(d)[:600])
    print("replayed: failures=%d disagreements=%d" % (len(report.failures), len(report.disagreements)))
    return 1 if report.failures else 0
