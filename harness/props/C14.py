"""C14 — occlusion/mismatch filling touches only flagged pixels, fills from valid ones.

implementation (numba kernels, `interpolated_disparity`, `validation_run`)
   ==correspondence==  Lean model `Pandora.Interp.interpolate`  ==theorems==>  Lean spec `Pandora.Interp.spec`.
The spec is also evaluated (by the Lean driver) on the implementation's own output for every case.
"""
from __future__ import annotations

import itertools
import json

from .. import core
from ..impl import interp_adapter as ia

PROP = "C14"


def _install_local_known():
    """known_findings.json is regenerated from known_findings.d/*.json by tools_manifest.py (a shared file this
    property does not own): until that has been run, read this property's entries from known_findings.d/C14.json too."""
    import os

    original = core.load_known
    if getattr(original, "_c14", False):
        return

    def load_known(prop):
        entries = original(prop)
        if prop == PROP:
            try:
                with open(os.path.join(core.VERIF, "known_findings.d", "C14.json"), encoding="utf-8") as f:
                    extra = [e for e in json.load(f)["findings"] if e.get("property") == PROP and e.get("status") == "known"]
            except FileNotFoundError:
                extra = []
            ids = {e.get("id") for e in entries}
            entries = entries + [e for e in extra if e.get("id") not in ids]
        return entries

    load_known._c14 = True
    core.load_known = load_known


_install_local_known()
OCC, MIS, FOCC, FMIS = 256, 512, 16, 32
INVALID_BITS = [1, 2, 64, 128, 1 + 2, 2 + 128, 64 + 128, 1 + 64, 2 + 4, 64 + 8]
INFO_VALID = [0, 0, 0, 0, 4, 8, 4 + 8, 1024, 2048, 16, 32, 16 + 4, 32 + 8, 1024 + 2048]
INFO_FLAGGED = [0, 0, 0, 4, 8, 4 + 8, 1024, 2048, 2048 + 4]


def translate():
    from translator import registry

    return registry.generate("Interp", "Constants", "KernelsInterp", "KernelsInterpStep")


# --------------------------------------------------------------------------------------------
# generators
# --------------------------------------------------------------------------------------------
def pick_pool(rng):
    """disparity values of the valid pixels: small dyadic numbers, so that float32 medians are exact"""
    kind = rng.random()
    if kind < 0.35:
        lo = rng.randrange(-6, 4)
        return [lo + k for k in range(rng.randrange(1, 5))]  # narrow integer range, often away from 0
    if kind < 0.6:
        lo = rng.choice([2, 3, 5, -7, -4])
        return [lo + k / 4 for k in range(rng.randrange(2, 9))]  # quarter steps, 0 outside the range
    if kind < 0.8:
        return [-3, -2, -1, 1, 2, 3, -2.5, 2.5, -1, 1]  # ties of |d| with opposite signs
    return [rng.randrange(-8, 9) / rng.choice([1, 2, 4]) for _ in range(6)]


def gen_pixel(rng, state, pool, method, stale=False):
    """state in v(alid) i(nvalid) o(cclusion) m(ismatch) -> (disparity, flag)"""
    if state == "v":
        return rng.choice(pool), rng.choice(INFO_VALID)
    junk = rng.random()
    d = "nan" if junk < 0.45 else (rng.choice([50, -50, 99.5]) if junk < 0.8 else rng.choice(pool))
    if state == "i":
        return d, rng.choice(INVALID_BITS)
    if state == "o":
        f = OCC + rng.choice(INFO_FLAGGED) + (FMIS if rng.random() < 0.1 else 0)
        if stale:
            f |= FOCC
        return d, f
    f = MIS + rng.choice(INFO_FLAGGED) + (FOCC if (rng.random() < 0.1 and method == "mc-cnn") else 0)
    if stale:
        f |= FMIS if (method == "mc-cnn" or rng.random() < 0.5) else FOCC
    return d, f


STYLES = ["mix", "mix", "mix", "novalid", "rows_novalid", "sparse_valid", "edge_flagged", "far_edge", "dense_flagged",
          "lonely"]


def gen_layout(rng, rows, cols, style):
    """grid of states"""
    def weights():
        w = [rng.random() ** 2 for _ in range(4)]
        for i in range(4):
            if rng.random() < 0.15:
                w[i] = 0.0
        if sum(w) == 0:
            w[rng.randrange(4)] = 1.0
        return w

    if style == "mix":
        w = weights()
        return [[rng.choices("viom", w)[0] for _ in range(cols)] for _ in range(rows)]
    if style == "novalid":
        w = [0.0, rng.random(), rng.random() + 0.1, rng.random() + 0.1]
        return [[rng.choices("viom", w)[0] for _ in range(cols)] for _ in range(rows)]
    if style == "rows_novalid":
        w = weights()
        g = [[rng.choices("viom", w)[0] for _ in range(cols)] for _ in range(rows)]
        for r in range(rows):
            if rng.random() < 0.5:
                g[r] = [rng.choice("iom") for _ in range(cols)]
        return g
    if style == "sparse_valid":
        g = [[rng.choice("iomom") for _ in range(cols)] for _ in range(rows)]
        for _ in range(rng.randrange(1, 4)):
            g[rng.randrange(rows)][rng.randrange(cols)] = "v"
        return g
    if style == "edge_flagged":
        g = [["v" if rng.random() < 0.8 else rng.choice("iom") for _ in range(cols)] for _ in range(rows)]
        for r in range(rows):
            for c in range(cols):
                if r in (0, rows - 1) or c in (0, cols - 1):
                    if rng.random() < 0.7:
                        g[r][c] = rng.choice("om")
        return g
    if style == "far_edge":
        # a flagged pixel on the first row / column looking along a line without any valid pixel
        g = [["v" if rng.random() < 0.6 else rng.choice("iom") for _ in range(cols)] for _ in range(rows)]
        if rng.random() < 0.5:
            r = rng.randrange(rows)
            g[r] = [rng.choice("iom") for _ in range(cols)]
            g[r][rng.choice([0, cols - 1])] = rng.choice("mmo")
        else:
            c = rng.randrange(cols)
            for r in range(rows):
                g[r][c] = rng.choice("iom")
            g[rng.choice([0, rows - 1])][c] = rng.choice("mmo")
        return g
    if style == "dense_flagged":
        return [[rng.choice("ommv") for _ in range(cols)] for _ in range(rows)]
    # lonely: one flagged pixel in a valid map
    g = [["v"] * cols for _ in range(rows)]
    g[rng.randrange(rows)][rng.randrange(cols)] = rng.choice("om")
    if rng.random() < 0.5:
        g[rng.randrange(rows)][rng.randrange(cols)] = rng.choice("omi")
    return g


def build_case(rng, method, rows, cols, style, offset=0, border="clean", stale=False, label="rnd"):
    layout = gen_layout(rng, rows, cols, style)
    pool = pick_pool(rng)
    disp, flag = [], []
    for r in range(rows):
        dr, fr = [], []
        for c in range(cols):
            on_border = offset > 0 and (r < offset or r >= rows - offset or c < offset or c >= cols - offset)
            if on_border and border == "clean":
                d, f = rng.choice(["nan", -9999, rng.choice(pool)]), 1
            else:
                d, f = gen_pixel(rng, layout[r][c], pool, method, stale=stale and rng.random() < 0.4)
            dr.append(core.enc(d) if d != "nan" else "nan")
            fr.append(f)
        disp.append(dr)
        flag.append(fr)
    return {"method": method, "offset": offset, "disp": disp, "flag": flag, "label": label,
            "border": border if offset > 0 else "none", "style": style}


def long_gap_case(rng):
    """a strip in which a flagged pixel and the valid pixels it can be filled from are separated by a long run of
    invalid pixels (the path loops are bounded by max(rows, cols), nothing shorter)"""
    method = rng.choice(ia.METHODS)
    n = rng.choice([rng.randrange(103, 130), rng.randrange(130, 215), rng.randrange(215, 270)])
    other = rng.choice([1, 1, 2, 3])
    gap = rng.randrange(100, n - 2)
    start = rng.randrange(0, n - gap - 1)
    line = ["i"] * n
    for k in range(0, start + 1):
        line[k] = rng.choice("omomv") if k < start else rng.choice("om")
    for k in range(start + gap + 1, n):
        line[k] = "v" if k == start + gap + 1 else rng.choice("vvio")
    if rng.random() < 0.5:
        line.reverse()
    horizontal = rng.random() < 0.5
    rows, cols = (other, n) if horizontal else (n, other)
    main = rng.randrange(other)
    pool = pick_pool(rng)
    disp, flag = [], []
    for r in range(rows):
        dr, fr = [], []
        for c in range(cols):
            along, across = (c, r) if horizontal else (r, c)
            state = line[along] if across == main else rng.choice("iiio")
            d, f = gen_pixel(rng, state, pool, method)
            dr.append(core.enc(d) if d != "nan" else "nan")
            fr.append(f)
        disp.append(dr)
        flag.append(fr)
    return {"method": method, "offset": 0, "disp": disp, "flag": flag, "label": "long_gap", "border": "none", "style": "long_gap"}


def random_case(rng, thorough):
    method = rng.choice(ia.METHODS)
    shape = rng.random()
    if shape < 0.12:
        rows, cols = 1, rng.randrange(1, 10)
    elif shape < 0.24:
        rows, cols = rng.randrange(1, 8), 1
    elif shape < 0.9 or not thorough:
        rows, cols = rng.randrange(1, 8), rng.randrange(1, 10)
    else:
        rows, cols = rng.randrange(5, 13), rng.randrange(5, 15)
    style = rng.choice(STYLES)
    offset, border, stale = 0, "clean", False
    k = rng.random()
    if k < 0.15:
        offset = rng.choice([1, 1, 2])
    elif k < 0.22 and method == "mc-cnn":
        offset, border = rng.choice([1, 2]), "junk"
    elif k < 0.27:
        stale = True
    return build_case(rng, method, rows, cols, style, offset, border, stale)


# --------------------------------------------------------------------------------------------
# comparison / evaluation
# --------------------------------------------------------------------------------------------
def grid_diff(a, b):
    """cells where two wire grids differ (exactly; NaN equals NaN)"""
    out = []
    if len(a) != len(b):
        return [("shape", len(a), len(b))]
    for r, (ra, rb) in enumerate(zip(a, b)):
        if len(ra) != len(rb):
            return [("shape", r, len(ra), len(rb))]
        for c, (x, y) in enumerate(zip(ra, rb)):
            if not core.same_cell(core.dec(x), core.dec(y)):
                out.append((r, c, x, y))
    return out


def abs_equal(x, y):
    dx, dy = core.dec(x), core.dec(y)
    return not isinstance(dx, float) and not isinstance(dy, float) and abs(dx) == abs(dy)


def payload(case):
    return {"method": case["method"], "offset": case["offset"], "disp": case["disp"], "flag": case["flag"]}


_VARIANT = ["guard+or"]  # the text of the kernels the translator read from the source ("guard+or" today)


def source_variant():
    """which variant of the Lean model reads like the source: decided by the translator (ast), see gen_interp.variant_of"""
    try:
        from translator import gen_interp
        v = gen_interp.variant_of(gen_interp.extract())
    except Exception:  # pylint: disable=broad-except
        v = "unknown"
    return v


def correspondence(ctx, case, impl, kimpl, nimpl, variant, kernels):
    """disagreements between the implementation's outputs and one variant of the Lean model (None = the model the
    theorems are about).  Returns (disagreements, sign ties, model answer of C14.run)."""
    out, ties = [], 0
    extra = {"variant": variant}
    rows = len(case["flag"])
    cols = len(case["flag"][0]) if rows else 0
    model = ctx.lean.call("C14.run", **payload(case), **extra)
    for r, c, x, y in [d for d in grid_diff(impl["disp"], model["disp"]) if d[0] != "shape"]:
        kind = model["kind"][r][c]
        if case["method"] == "sgm" and kind in ("occl", "mism_as_occl") and abs_equal(x, y):
            ties += 1  # numba's argsort on a tie of |d| with opposite signs: the spec fixes |d| only
            continue
        out.append({"what": "disparity_map", "r": r, "c": c, "impl": x, "model": y})
    if any(d[0] == "shape" for d in grid_diff(impl["disp"], model["disp"])):
        out.append({"what": "shape", "impl": [len(impl["disp"])], "model": [rows, cols]})
    for d in grid_diff(impl["flag"], model["flag"]):
        out.append({"what": "validity_mask", "cell": d[:2], "impl": d[2], "model": d[3]})
    if kernels and rows * cols > 0:
        for k in ia.KERNELS:
            ki = kimpl[k]
            if "error" in ki:
                out.append({"what": f"kernel {k} raised", "impl": ki, "model": "no error"})
                continue
            km = ctx.lean.call("C14.kernel", kernel=k, disp=case["disp"], flag=case["flag"], **extra)
            if not ki["inputs_untouched"]:
                out.append({"what": f"kernel {k} modified its arguments", "impl": True, "model": False})
            for r, c, x, y in grid_diff(ki["disp"], km["disp"]):
                if k == "occlusion_sgm" and abs_equal(x, y):
                    ties += 1
                    continue
                out.append({"what": f"kernel {k} disparity", "r": r, "c": c, "impl": x, "model": y})
            for d in grid_diff(ki["flag"], km["flag"]):
                out.append({"what": f"kernel {k} mask", "cell": d[:2], "impl": d[2], "model": d[3]})
        nm = ctx.lean.call("C14.kernel", kernel="find_valid_neighbors", disp=case["disp"], flag=case["flag"])
        if "error" in nimpl:
            out.append({"what": "find_valid_neighbors raised", "impl": nimpl, "model": "no error"})
        else:
            for r in range(rows):
                for c in range(cols):
                    if grid_diff([nimpl["neighbors"][r][c]], [nm["neighbors"][r][c]]):
                        out.append({"what": "find_valid_neighbors", "r": r, "c": c,
                                    "impl": nimpl["neighbors"][r][c], "model": nm["neighbors"][r][c]})
    return out, ties, model


def evaluate(ctx, case, kernels=True):
    """Run the implementation and the model on one case, evaluate the spec on the implementation's output.
    Returns {"impl", "model", "disagreements": [...], "failures": [...], "hits": {...}, "ties": n}."""
    res = {"disagreements": [], "failures": [], "hits": {}, "ties": 0, "triggers": {}, "variant": None}
    impl = ia.run_method(case["method"], case["offset"], case["disp"], case["flag"])
    model = ctx.lean.call("C14.run", variant=_VARIANT[0], **payload(case))
    res["impl"], res["model"] = impl, model
    rows = len(case["flag"])
    cols = len(case["flag"][0]) if rows else 0
    if "error" in impl:
        res["disagreements"].append({"what": "implementation raised", "impl": impl, "model": "no error"})
        return res
    if "bad_output" in impl:
        # flag words that are not integers (or disparities that are not numbers): no documented state of a pixel
        res["disagreements"].append({"what": "output not a (float map, integer flag map)", "impl": impl, "model": "maps"})
        res["failures"].append({"clause": "filled_bits", "trigger": "flag_word_not_an_integer", "pixel": None,
                                "detail": impl["bad_output"] + " dtypes " + str(impl["dtype"])})
        return res
    # ---- correspondence: whole method, then kernel by kernel (each numba kernel against its model on the same input)
    if impl["attr"] != case["method"]:
        res["disagreements"].append({"what": "attrs[interpolated_disparity]", "impl": impl["attr"], "model": case["method"]})
    if impl["dtype"] != ["float32", "uint16"]:
        res["disagreements"].append({"what": "dtype", "impl": impl["dtype"], "model": ["float32", "uint16"]})
    kimpl, nimpl = {}, None
    if kernels and rows * cols > 0:
        kimpl = {k: ia.run_kernel(k, case["disp"], case["flag"]) for k in ia.KERNELS}
        nimpl = ia.run_find_valid_neighbors(case["disp"], case["flag"])
    dis, ties, _ = correspondence(ctx, case, impl, kimpl, nimpl, _VARIANT[0], kernels)
    res["variant"] = _VARIANT[0]
    res["ties"] = ties
    res["disagreements"].extend(dis)
    if rows * cols <= 40 and rows * cols > 0:
        # the two evaluation routes of the driver agree (the theorems are about "direct")
        m2 = ctx.lean.call("C14.run", via="materialised", variant=_VARIANT[0], **payload(case))
        m1 = ctx.lean.call("C14.run", via="direct", variant=_VARIANT[0], **payload(case))
        if m1["disp"] != m2["disp"] or m1["flag"] != m2["flag"]:
            res["disagreements"].append({"what": "driver: direct vs materialised", "impl": m1["flag"], "model": m2["flag"]})
    # ---- the specification on the implementation's output
    sp = ctx.lean.call("C14.spec", out_disp=impl["disp"], out_flag=impl["flag"], variant=_VARIANT[0], **payload(case))
    res["spec"] = {"ok": sp["ok"], "wf": sp["wf"]}
    res["hits"] = sp["hits"]
    wfd = sp["wf"]
    if not sp["shape_ok"]:
        res["failures"].append({"clause": "unflagged_untouched", "trigger": "shape_changed", "pixel": None, "detail": "shape"})
    off = case["offset"]
    for f in sp["failures"]:
        r, c = f["r"], f["c"]
        on_border = off > 0 and (r < off or r >= rows - off or c < off or c >= cols - off)
        if not wfd["border_clean"] and f["clause"] != "border_bit0_only":
            # a border that is not what mask_border left there (cannot come out of a cross-check): the only claim is
            # "border pixels end with bit 0 only"; the state between the passes cannot be read off the output
            continue
        if not (wfd["valid_finite"] and wfd["one_flag"]):
            continue  # not a map a cross-check can produce: correspondence only
        trig = f["trigger"] or (case["method"] + ":" + (model["kind"][r][c] or "unflagged"))
        res["failures"].append({"clause": f["clause"], "trigger": trig, "pixel": [r, c],
                                "detail": {"in": f["in"], "out": f["out"], "sources": f["sources"]}})
    for row in model["trigger"]:
        for t in row:
            if t:
                res["triggers"][t] = res["triggers"].get(t, 0) + 1
    res["sign_tie_pixels"] = sum(1 for row in model.get("sign_tie", []) for t in row if t)
    return res


_REPORTED_KNOWN = set()


def case_key(case):
    return json.dumps([case["method"], case["offset"], case["disp"], case["flag"]])


def record(report, case, res, label):
    """book-keeping of one evaluated case"""
    flagged = sum(1 for row in case["flag"] for f in row if f & (OCC | MIS))
    report.case(key=case_key(case), nontrivial=flagged > 0,
                sample={"case": {k: case[k] for k in ("method", "offset", "disp", "flag")},
                        "impl_flag": res["impl"].get("flag")})
    for d in res["disagreements"]:
        report.disagree(d["what"], payload(case), d.get("impl"), d.get("model"))
    seen = set()
    known = core.load_known(PROP) if res["failures"] else []
    for f in res["failures"]:
        if (f["clause"], f["trigger"]) in seen:
            continue
        seen.add((f["clause"], f["trigger"]))
        if any(k.get("clause") == f["clause"] and k.get("trigger") == f["trigger"] for k in known):
            # a known finding: reported once per run (core keeps at most 200 failures - they must not crowd out new ones)
            report.count("known_finding_reproduced:%s/%s" % (f["clause"], f["trigger"]))
            if (id(report), f["clause"], f["trigger"]) in _REPORTED_KNOWN:
                continue
            _REPORTED_KNOWN.add((id(report), f["clause"], f["trigger"]))
        report.fail(f["clause"], f["trigger"], payload(case), {"disp": res["impl"].get("disp"), "flag": res["impl"].get("flag")},
                    json.dumps({"pixel": f["pixel"], **(f["detail"] if isinstance(f["detail"], dict) else {"d": f["detail"]})}))
    for k, n in res["hits"].items():
        report.hit(k, n)
    for t, n in res["triggers"].items():
        report.count("situation:" + t, n)
    if res["ties"]:
        report.count("sgm_argsort_sign_ties_compared_on_abs", res["ties"])
    if res.get("sign_tie_pixels"):
        report.count("sgm_pixels_with_sign_tie_of_abs(compared_exactly)", res["sign_tie_pixels"])
    report.count("method:" + case["method"])
    report.count("label:" + label)
    rows = len(case["flag"])
    cols = len(case["flag"][0]) if rows else 0
    report.count(f"size:{min(rows, 8)}x{min(cols, 10)}")
    report.count("offset:%d" % case["offset"])
    if case.get("border") == "junk":
        report.count("border:junk")
    if res.get("spec") and not res["spec"]["wf"]["no_stale_fill"]:
        report.count("stale_filled_bit_cases")
    if res.get("spec") and res["spec"]["wf"]["wf"]:
        report.count("cases_inside_theorem_hypotheses")
    report.count("flagged_pixels", flagged)


def unknown_failures(failures):
    known = core.load_known(PROP)
    return [f for f in failures if not any(k.get("clause") == f["clause"] and k.get("trigger") == f["trigger"] for k in known)]


def shrink(ctx, case, clause, trigger, budget=150):
    """greedy minimisation of a failing case: drop rows / columns, then simplify pixels, while the same
    clause keeps failing with the same trigger"""
    def fails(c):
        try:
            res = evaluate(ctx, c, kernels=False)
        except Exception:  # pylint: disable=broad-except
            return False
        return any(f["clause"] == clause and f["trigger"] == trigger for f in res["failures"])

    cur = {k: (json.loads(json.dumps(v)) if isinstance(v, list) else v) for k, v in case.items()}
    changed = True
    while changed and budget > 0:
        changed = False
        rows = len(cur["flag"])
        cols = len(cur["flag"][0]) if rows else 0
        cands = []
        for r in range(rows):
            if rows > 1:
                cands.append(dict(cur, disp=cur["disp"][:r] + cur["disp"][r + 1:], flag=cur["flag"][:r] + cur["flag"][r + 1:]))
        for c in range(cols):
            if cols > 1:
                cands.append(dict(cur, disp=[x[:c] + x[c + 1:] for x in cur["disp"]], flag=[x[:c] + x[c + 1:] for x in cur["flag"]]))
        for r in range(rows):
            for c in range(cols):
                f = cur["flag"][r][c]
                for nf in ([0] if f not in (0,) else []) + ([f & (OCC | MIS)] if f & (OCC | MIS) and f != f & (OCC | MIS) else []) \
                        + ([1] if f not in (0, 1, OCC, MIS) else []):
                    g = [row[:] for row in cur["flag"]]
                    g[r][c] = nf
                    cands.append(dict(cur, flag=g))
        for cand in cands:
            budget -= 1
            if budget <= 0:
                break
            if fails(cand):
                cur = cand
                changed = True
                break
    return cur


# --------------------------------------------------------------------------------------------
# streams
# --------------------------------------------------------------------------------------------
def check_case(ctx, report, case, label, do_shrink=True, kernels=True):
    res = evaluate(ctx, case, kernels=kernels)
    unk = unknown_failures(res["failures"])
    if unk and do_shrink:
        f = unk[0]
        small = shrink(ctx, case, f["clause"], f["trigger"])
        if small["flag"] != case["flag"]:
            res2 = evaluate(ctx, small, kernels=False)
            record(report, small, res2, label + ":shrunk")
    record(report, case, res, label)
    return res


def layouts_exhaustive(rows, cols, method, disp_pattern):
    """every layout of {valid, invalid, occlusion, mismatch} on a rows×cols map"""
    cells = rows * cols
    for states in itertools.product("viom", repeat=cells):
        disp, flag = [], []
        for r in range(rows):
            dr, fr = [], []
            for c in range(cols):
                s = states[r * cols + c]
                k = r * cols + c
                fr.append({"v": 0, "i": 2, "o": OCC, "m": MIS}[s])
                dr.append(disp_pattern[k % len(disp_pattern)] if s == "v" else "nan")
            disp.append(dr)
            flag.append(fr)
        yield {"method": method, "offset": 0, "disp": disp, "flag": flag, "label": "exh", "border": "none", "style": "exh"}


def validation_case(rng):
    """left / right disparity maps for `validation_run`: a mostly consistent pair with planted inconsistencies"""
    rows, cols = rng.randrange(1, 6), rng.randrange(2, 9)
    dmin = rng.choice([-2, -1, 0])
    dmax = dmin + rng.randrange(1, 4)
    offset = rng.choice([0, 0, 0, 1])
    left = {"disp": [], "flag": []}
    right = {"disp": [], "flag": []}
    for r in range(rows):
        base = rng.randrange(dmin, dmax + 1)
        ld, lf, rd, rf = [], [], [], []
        for c in range(cols):
            d = base if rng.random() < 0.7 else rng.randrange(dmin, dmax + 1)
            ld.append(d)
            lf.append(0 if rng.random() < 0.85 else rng.choice([2, 64, 4, 8]))
            rd.append(-base if rng.random() < 0.6 else -rng.randrange(dmin, dmax + 1))
            rf.append(0 if rng.random() < 0.85 else rng.choice([2, 128, 4]))
        left["disp"].append(ld), left["flag"].append(lf), right["disp"].append(rd), right["flag"].append(rf)
    for side in (left, right):
        for r in range(rows):
            for c in range(cols):
                if offset and (r < offset or r >= rows - offset or c < offset or c >= cols - offset):
                    side["flag"][r][c] = 1
                    side["disp"][r][c] = "nan"
                elif side["flag"][r][c] & 963:
                    side["disp"][r][c] = rng.choice(["nan", -9999])
    return {"method": rng.choice(ia.METHODS), "offset": offset, "left": left, "right": right, "interval": [dmin, dmax]}


def check_validation_case(ctx, report, vc):
    """the filling as `validation_run` applies it: after both cross-checks, to left and to right"""
    out = ia.run_validation(vc["method"], vc["offset"], vc["left"], vc["right"], vc["interval"])
    if "error" in out:
        report.disagree("validation_run raised", vc, out, "no error")
        return
    for side in ("left", "right"):
        a = out[side]["checked"]
        b = out[side]["final"]
        case = {"method": vc["method"], "offset": vc["offset"], "disp": a["disp"], "flag": a["flag"]}
        flagged = sum(1 for row in a["flag"] for f in row if f & (OCC | MIS))
        report.case(key="val:" + case_key(case), nontrivial=flagged > 0)
        report.count("validation_run:" + side)
        report.count("validation_run_flagged_pixels", flagged)
        if out[side]["attr"] != vc["method"]:
            report.disagree(f"validation_run: {side} map not marked as filled", vc, out[side]["attr"], vc["method"])
        model = ctx.lean.call("C14.run", variant=_VARIANT[0], **case)
        for r, c, x, y in grid_diff(b["disp"], model["disp"]):
            if vc["method"] == "sgm" and abs_equal(x, y):
                continue
            report.disagree(f"validation_run {side} disparity_map", vc, x, y)
        for d in grid_diff(b["flag"], model["flag"]):
            report.disagree(f"validation_run {side} validity_mask", vc, d[2], d[3])
        sp = ctx.lean.call("C14.spec", out_disp=b["disp"], out_flag=b["flag"], variant=_VARIANT[0], **case)
        for k, n in sp["hits"].items():
            report.hit(k, n)
        seen = set()
        for f in sp["failures"]:
            trig = f["trigger"] or (vc["method"] + ":" + (model["kind"][f["r"]][f["c"]] or "unflagged"))
            if (f["clause"], trig) in seen:
                continue
            seen.add((f["clause"], trig))
            if any(k.get("clause") == f["clause"] and k.get("trigger") == trig for k in core.load_known(PROP)):
                report.count("known_finding_reproduced:%s/%s" % (f["clause"], trig))
                if (id(report), f["clause"], trig) in _REPORTED_KNOWN:
                    continue
                _REPORTED_KNOWN.add((id(report), f["clause"], trig))
            report.fail(f["clause"], trig, {"validation_run": vc, "side": side}, b,
                        json.dumps({"pixel": [f["r"], f["c"]], "in": f["in"], "out": f["out"], "after_cross_check": a}))


def translator_cross_check(ctx, report, status):
    """what the translator read from the source text = the live objects = the constants of the model"""
    try:
        from translator import gen_interp
        gen = gen_interp.extract()
    except Exception:  # already reported by build_and_audit
        return
    import pandora.constants as cst

    consts = ctx.lean.call("C14.constants")
    report.translator_checks += 1
    for name in ("PANDORA_MSK_PIXEL_INVALID", "PANDORA_MSK_PIXEL_LEFT_NODATA_OR_BORDER", "PANDORA_MSK_PIXEL_FILLED_OCCLUSION",
                 "PANDORA_MSK_PIXEL_FILLED_MISMATCH", "PANDORA_MSK_PIXEL_OCCLUSION", "PANDORA_MSK_PIXEL_MISMATCH"):
        if getattr(cst, name) != consts[name]:
            status.problem("translator", f"live constant {name} = {getattr(cst, name)} differs from the model's {consts[name]}")
    live = ia.live_dirs()
    report.translator_checks += 1
    for fn, dirs in gen["dirs"].items():
        if live.get(fn) is None or [[float(x) for x in d] for d in live[fn]] != [[float(x) for x in d] for d in dirs]:
            status.problem("translator", f"direction table of {fn} differs between translator and live source")


def step_cross_check(ctx, report, status):
    """T15 (interpolation step): the real `interpolated_disparity` of both classes against the statement list
    `Generated/KernelsInterpStep.lean` is printed from, run with the REAL compiled kernels and the real `mask_border` as
    primitives (the kernels themselves are validated by `kernel_cross_check`).  Compared: the two arrays the dataset holds
    afterwards, that they are NOT the arrays it held before (fresh), and that those keep their content (frame)."""
    import random

    import numpy as np

    from ..impl import interp_adapter as ia
    from ..impl import interp_kernels_check as ikc
    from translator import gen_kernels_interp_step as gs

    try:
        fs = gs.functions()
    except Exception:  # already reported by build_and_audit (translate())  # pylint: disable=broad-except
        return
    from pandora import validation
    from pandora.criteria import mask_border as real_mask_border
    from pandora.validation.interpolated_disparity import McCnnInterpolation, SgmInterpolation

    kernels = {"occlusionMcCnnPx": McCnnInterpolation.interpolate_occlusion_mc_cnn, "mismatchMcCnnPx": McCnnInterpolation.interpolate_mismatch_mc_cnn,
               "occlusionSgmPx": SgmInterpolation.interpolate_occlusion_sgm, "mismatchSgmPx": SgmInterpolation.interpolate_mismatch_sgm}

    def border(mask, off):  # mask_border works on a dataset, in place on its validity mask
        ds = ia.dataset([[0] * mask.shape[1]] * mask.shape[0], mask.tolist(), off)
        ds["validity_mask"].data = mask
        return real_mask_border(ds).data

    rng = random.Random(1414 + ctx.seed)
    n = ctx.n(60, 600)
    for _ in range(n):
        disp, flag = ikc.flagged_map(rng)
        rows, cols = len(flag), len(flag[0])
        off = rng.choice([0, 0, 1, 2]) if min(rows, cols) > 4 else rng.choice([0, 0, 1]) if min(rows, cols) > 2 else 0
        for meth, lean in (("mc-cnn", "interpolatedDisparityMcCnn"), ("sgm", "interpolatedDisparitySgm")):
            ds = ia.dataset(disp, flag, off)
            d0, f0 = ds["disparity_map"].data, ds["validity_mask"].data
            d0c, f0c = d0.copy(), f0.copy()
            try:
                validation.AbstractInterpolation(**{"interpolated_disparity": meth}).interpolated_disparity(ds)
            except Exception:  # pylint: disable=broad-except
                continue  # judged by the main stream
            e_d0, e_f0 = d0c.copy(), f0c.copy()
            want_d, want_f = gs.evaluate(fs[lean], kernels, border, e_d0, e_f0, off)
            got_d, got_f = ds["disparity_map"].data, ds["validity_mask"].data
            report.translator_checks += 1
            ok_val = np.array_equal(got_d, want_d, equal_nan=True) and np.array_equal(got_f, want_f)
            ok_frame = (np.array_equal(d0, e_d0, equal_nan=True) and np.array_equal(f0, e_f0)
                        and (got_d is d0) == (want_d is e_d0) and (got_f is f0) == (want_f is e_f0))
            ok_attr = ds.attrs.get("interpolated_disparity") == fs[lean]["attr"]
            if not (ok_val and ok_frame and ok_attr):
                status.problem("translator", f"translated {meth} interpolated_disparity differs from the real method on a {rows}x{cols} map, offset "
                               f"{off} (values {ok_val}, arrays held before the call / freshness {ok_frame}, attribute {ok_attr})")
                return
    report.count("step_cross_check_maps", n)


def run(ctx, report, status):
    rng = ctx.rng
    report.rule = (
        "disparity maps + validity masks as a cross-check leaves them: 1-7 x 1-9 pixels (strips 1xN / Nx1, up to 12x14 in "
        "the thorough tier), every pixel valid / invalid / occlusion (bit 8) / mismatch (bit 9) with information bits, layouts "
        "drawn from 10 styles (mixtures, no valid pixel at all, rows without valid pixel, 1-3 valid pixels, flagged edges and "
        "corners, a flagged pixel looking along an all-invalid line to the far edge, dense flags, one lonely flag), dyadic "
        "disparities (ties of |d| planted), NaN or out-of-range junk under invalid pixels, offsets 0/1/2 with clean or junk "
        "borders, stale filled bits; both methods; each case runs interpolated_disparity, the four numba kernels and "
        "find_valid_neighbors against the Lean model (exact comparison; |d| only on sgm argsort sign ties) and the Lean spec "
        "on the implementation's output; plus validation_run on left/right pairs. non-trivial = at least one flagged pixel; "
        "distinct by (method, offset, map, mask)"
    )
    translator_cross_check(ctx, report, status)
    # the kernels regenerated from the source (Generated/KernelsInterp.lean): real numba functions vs the translator's evaluator
    from ..impl import interp_kernels_check
    interp_kernels_check.kernel_cross_check(ctx, report, status)
    step_cross_check(ctx, report, status)
    v = source_variant()
    report.count("model_variant_read_from_source:" + v)
    if v == "unknown":
        status.problem("translator", "the guards of the kernels are neither all present nor all absent: no variant of the model reads like this source")
    else:
        _VARIANT[0] = v
    # corpus first
    for name, case in core.load_corpus(PROP):
        if "validation_run" in case:
            check_validation_case(ctx, report, case["validation_run"])
        else:
            check_case(ctx, report, case, "corpus:" + name, do_shrink=False)
    # exhaustive small scope: every layout of a small map
    for method in ia.METHODS:
        for rows, cols in ([(1, 3), (2, 2), (3, 1)] if not ctx.thorough else [(1, 3), (3, 1), (2, 2), (1, 5), (2, 3), (3, 2)]):
            for case in layouts_exhaustive(rows, cols, method, [3, 5, 4, 6, 3.5, 7, 5.25, 4]):
                check_case(ctx, report, case, "exh", kernels=False)
    if ctx.thorough:
        n = 0
        for method in ia.METHODS:
            for case in layouts_exhaustive(3, 3, method, [3, -5, 4, 6, -3, 7, 5, -4, 3]):
                n += 1
                if n % 8 == ctx.seed % 8:  # an eighth of the 2 x 262144 layouts per seed
                    check_case(ctx, report, case, "exh3x3", kernels=False, do_shrink=False)
    report.exhaustive = True
    # random structured maps
    for _ in range(ctx.n(800, 12000)):
        check_case(ctx, report, random_case(rng, ctx.thorough), "rnd")
    # block-size-free kernels: still, a few long strips (path length = max(rows, cols))
    for _ in range(ctx.n(6, 60)):
        method = rng.choice(ia.METHODS)
        rows, cols = rng.choice([(1, rng.randrange(20, 60)), (rng.randrange(20, 60), 1), (2, rng.randrange(15, 40)),
                                 (rng.randrange(15, 30), 3)])
        check_case(ctx, report, build_case(rng, method, rows, cols, rng.choice(STYLES), label="strip"), "strip", kernels=False)
    # sources far away: the only valid pixel in sight lies more than 100 (150, 200) pixels from the flagged one
    for _ in range(ctx.n(6, 60)):
        check_case(ctx, report, long_gap_case(rng), "long_gap", kernels=False, do_shrink=False)
    # through the state machine
    for _ in range(ctx.n(100, 1500)):
        check_validation_case(ctx, report, validation_case(rng))


def search(ctx, report, status):
    """Directed search after a broken obligation / disagreement: small layouts exhaustively, then the random stream,
    with the Lean spec as oracle on the real code.  Returns the first failure that is not a known finding."""
    sub = core.Report(PROP, ctx.tier, ctx.seed)

    def first_unknown():
        known = core.load_known(PROP)
        for f in sub.failures:
            if not any(k.get("clause") == f["clause"] and k.get("trigger") == f["trigger"] for k in known):
                return f
        return None

    for d in report.disagreements:  # 1. the disagreeing cases themselves
        case = d.get("case") or {}
        try:
            if "left" in case:
                check_validation_case(ctx, sub, case)
            elif "flag" in case:
                check_case(ctx, sub, dict(case, label="search"), "search", kernels=False)
        except Exception:  # pylint: disable=broad-except
            continue
        f = first_unknown()
        if f:
            return f
    for method in ia.METHODS:  # 2. every layout of the small maps
        for rows, cols in [(1, 3), (3, 1), (2, 2), (1, 4), (2, 3), (3, 2)]:
            for case in layouts_exhaustive(rows, cols, method, [3, 5, 4, 6, 3.5, 7]):
                check_case(ctx, sub, case, "search", kernels=False)
            f = first_unknown()
            if f:
                return f
    rng = ctx.rng
    for i in range(4000):  # 3. the random stream
        if i % 5 == 4:
            check_validation_case(ctx, sub, validation_case(rng))
        else:
            check_case(ctx, sub, random_case(rng, True), "search", kernels=False)
        f = first_unknown()
        if f:
            return f
    return None


def replay(ctx, report, path):
    with open(path, encoding="utf-8") as f:
        data = json.load(f)
    case = data.get("input", data)
    if "validation_run" in case:
        check_validation_case(ctx, report, case["validation_run"])
    else:
        check_case(ctx, report, dict(case, label="replay"), "replay", do_shrink=False)
    known = core.load_known(PROP)
    unknown = 0
    for fl in report.failures:
        is_known = any(k.get("clause") == fl["clause"] and k.get("trigger") == fl["trigger"] for k in known)
        unknown += 0 if is_known else 1
        print("spec failure%s:" % (" (known finding)" if is_known else ""), fl["clause"], fl["trigger"], fl["detail"][:300])
    for d in report.disagreements:
        print("disagreement:", json.dumps(d, default=str)[:600])
    print("replayed: failures=%d (unknown %d) disagreements=%d" % (len(report.failures), unknown, len(report.disagreements)))
    return 1 if unknown else 0
