"""C20 — reported margins are a pure, monotone function of the checked pipeline."""
from __future__ import annotations

import copy
import json
import os
import shutil
import tempfile
from fractions import Fraction

from .. import core
from ..impl import machine_stubs as ms

PROP = "C20"


def translate():
    from translator import registry

    return registry.generate("Margins", "Transitions")


# ------------------------------------------------------------------------------------------------
# generators
# ------------------------------------------------------------------------------------------------
SIGMAS = [0.5, 1.0, 1.5, 2.0, 2.5, 0.25, 6.0, 3.0, 0.125]  # dyadic: int(3*sigma+1) is exact in floating point


def gen_step(rng, kind, name, mc_step):
    if kind == "matching_cost":
        meth = rng.choice(["sad", "ssd", "zncc", "census"])
        w = rng.choice([3, 5]) if meth == "census" else rng.choice([1, 3, 5, 7, 9, 11, 13])
        cfg = {"matching_cost_method": meth, "window_size": w}
        if mc_step != 1 or rng.random() < 0.3:
            cfg["step"] = mc_step
        return cfg, {"name": name, "method": meth, "window_size": w, "step": mc_step}
    if kind == "aggregation":
        return {"aggregation_method": "cbca"}, {"name": name, "method": "cbca"}
    if kind == "optimization":
        cfg = {"optimization_method": ms.STUB, "tag": name}
        # the default prior written out: same step, same margins (the callback has a branch on this key)
        if rng.random() < 0.5:
            cfg["geometric_prior"] = {"source": "internal"}
        return cfg, {"name": name, "method": ms.STUB}
    if kind == "semantic_segmentation":
        return {"segmentation_method": ms.STUB, "tag": name, "RGB_bands": None}, {"name": name, "method": ms.STUB}
    if kind == "cost_volume_confidence":
        meth = rng.choice(["ambiguity", "std_intensity", "risk", "interval_bounds"])
        return {"confidence_method": meth}, {"name": name, "method": meth}
    if kind == "disparity":
        return {"disparity_method": "wta", "invalid_disparity": rng.choice([-9999, "NaN", 0])}, {"name": name, "method": "wta"}
    if kind == "filter":
        meth = rng.choice(["median", "bilateral", "median_for_intervals"])
        if meth == "bilateral":
            sig = rng.choice(SIGMAS)
            return ({"filter_method": meth, "sigma_space": sig, "sigma_color": 2.0},
                    {"name": name, "method": meth, "sigma_space": core.enc(Fraction(sig))})
        fs = rng.choice([1, 3, 3, 5, 7])
        return {"filter_method": meth, "filter_size": fs}, {"name": name, "method": meth, "filter_size": fs}
    if kind == "refinement":
        meth = rng.choice(["vfit", "quadratic"])
        return {"refinement_method": meth}, {"name": name, "method": meth}
    if kind == "validation":
        cfg = {"validation_method": "cross_checking_accurate"}
        if rng.random() < 0.3:
            cfg["interpolated_disparity"] = rng.choice(["mc-cnn", "sgm"])
        return cfg, {"name": name, "method": "cross_checking_accurate"}
    if kind == "multiscale":
        return ({"multiscale_method": "fixed_zoom_pyramid", "num_scales": 2, "scale_factor": 2},
                {"name": name, "method": "fixed_zoom_pyramid"})
    raise ValueError(kind)


def gen_pipeline(rng):
    """an accepted pipeline (kinds), decorated names, real configurations, model step records"""
    kinds = ["matching_cost"]
    mc_step = rng.choice([1, 1, 1, 2, 3, 5])
    pool = ["aggregation", "semantic_segmentation", "cost_volume_confidence"] + (["optimization"] if mc_step == 1 else [])
    for _ in range(rng.randrange(0, 4)):
        kinds.append(rng.choice(pool))
    if rng.random() < 0.92:
        kinds.append("disparity")
        for _ in range(rng.randrange(0, 6)):
            kinds.append(rng.choice(["filter", "filter", "refinement", "validation", "multiscale"]))
    from .C01 import decorate

    names = decorate(rng, kinds)
    pipe, steps = {}, []
    for k, n in zip(kinds, names):
        cfg, rec = gen_step(rng, k, n, mc_step)
        pipe[n] = cfg
        steps.append(rec)
    return kinds, names, pipe, steps


def impl_margins(pipe, rows, cols, rows2=None, cols2=None):
    """margins.to_dict() after the real check_conf on a fresh machine; None when the check raises"""
    import sys
    import types

    ms.register_stubs()
    left = ms.make_image("L", rows, cols)
    right = ms.make_image("R", rows2 or rows, cols2 or cols, disp=False)
    m = ms.LoggedMachine()  # the real machine (callbacks delegate to the real ones), quiet logger
    # a matching-cost `step` other than 1 is only accepted when pandora2d drives Pandora: the class tests
    # `"pandora2d" in sys.modules` (the repository's own tests do the same through a mocker fixture)
    needs_2d = any(v.get("step", 1) != 1 for v in pipe.values())
    had = "pandora2d" in sys.modules
    if needs_2d and not had:
        sys.modules["pandora2d"] = types.ModuleType("pandora2d")
    try:
        m.check_conf({"pipeline": copy.deepcopy(pipe)}, left, right)
    except Exception as exc:  # pylint: disable=broad-except
        return None, f"{type(exc).__name__}: {exc}"
    finally:
        if needs_2d and not had:
            del sys.modules["pandora2d"]
    return m.margins.to_dict(), None


def canon(d):
    t = lambda m: [m["left"], m["up"], m["right"], m["down"]]
    return {
        "cumulative": [[k, t(v)] for k, v in d["cumulative margins"].items()],
        "non_cumulative": [[k, t(v)] for k, v in d["non-cumulative margins"].items()],
        "global": t(d["global margins"]),
    }


def check_case(ctx, report, pipe, steps, rows, cols, rows2, cols2, label):
    case = {"pipeline": pipe, "steps": steps, "rows": rows, "cols": cols, "rows2": rows2, "cols2": cols2}
    d, err = impl_margins(pipe, rows, cols, rows2, cols2)
    model = ctx.lean.call("C20.check", rows=rows, cols=cols, rows2=rows2, cols2=cols2, steps=steps)
    nontrivial = any(s["name"].split(".")[0] == "filter" for s in steps) or len(steps) > 2
    report.case(key=json.dumps([steps, rows, cols, rows2, cols2], sort_keys=True), nontrivial=nontrivial,
                sample={"steps": steps, "rows": rows, "cols": cols, "impl": canon(d) if d else err})
    if d is None:
        if model["ok"]:
            report.disagree("check raised", case, err, model)
        return None
    impl = canon(d)
    if not model["ok"] or impl != model["margins"]:
        report.disagree("margins", case, impl, model.get("margins"))
    same_shape = (rows, cols) == (rows2, cols2)
    spec = model["spec"]
    if same_shape:
        report.hit("lists_margin_steps")
        if [e[0] for e in impl["cumulative"]] != [e[0] for e in spec["cumulative"]] or \
           [e[0] for e in impl["non_cumulative"]] != [e[0] for e in spec["non_cumulative"]]:
            report.fail("lists_margin_steps", "keys", case, impl, f"expected {spec}")
        elif impl["cumulative"] != spec["cumulative"] or impl["non_cumulative"] != spec["non_cumulative"]:
            bad = [a[0] for a, b in zip(impl["cumulative"] + impl["non_cumulative"], spec["cumulative"] + spec["non_cumulative"]) if a != b]
            report.fail("documented_values", "value:" + bad[0].split(".")[0], case, impl, f"expected {spec}")
        report.hit("global_formula")
        if impl["global"] != spec["global"]:
            report.fail("global_formula", "global", case, impl, f"expected {spec['global']}")
        if any(s["name"].split(".")[0] == "validation" for s in steps):
            report.hit("second_round_noop")
    if min(min(e[1]) for e in impl["cumulative"] + impl["non_cumulative"] + [["", impl["global"]]]) < 0:
        report.fail("nonnegative", "negative", case, impl)
    report.hit("nonnegative")
    return impl


def api_ops(ctx, report):
    """the GlobalMargins API itself, on random operation sequences"""
    from pandora.margins import GlobalMargins, Margins

    rng = ctx.rng
    for _ in range(ctx.n(150, 2000)):
        ops = []
        keys = ["a", "b", "c", "filter", "filter.1"]
        for _ in range(rng.randrange(0, 8)):
            ops.append([rng.choice(["cum", "non"]), rng.choice(keys), [rng.randrange(-1, 9) if rng.random() < 0.1 else rng.randrange(0, 9) for _ in range(4)]])
        g = GlobalMargins()
        res = []
        for kind, key, m in ops:
            try:
                mm = Margins(*m)
            except ValueError:
                res.append("ValueError")
                continue
            try:
                (g.add_cumulative if kind == "cum" else g.add_non_cumulative)(key, mm)
                res.append("ok")
            except KeyError:
                res.append("KeyError")
        impl = canon(g.to_dict())
        model = ctx.lean.call("C20.ops", ops=ops)
        report.case(key=json.dumps(ops), nontrivial=len(ops) > 1)
        if res != model["results"] or impl != model["margins"]:
            report.disagree("GlobalMargins api", {"ops": ops}, {"results": res, "margins": impl}, model)
        if impl["global"] != model["spec_global"]:
            report.fail("global_formula", "api", {"ops": ops}, impl, f"expected {model['spec_global']}")
        report.hit("global_formula")


def saved_margins(ctx, report):
    """pandora.main stores machine.margins.to_dict() under 'margins' in cfg/config.json"""
    import numpy as np
    import rasterio

    import pandora
    from pandora.check_configuration import check_conf
    from pandora.state_machine import PandoraMachine

    rng = ctx.rng
    tmp = tempfile.mkdtemp(prefix="c20_")
    try:
        for i in range(ctx.n(1, 4)):
            rows, cols = rng.choice([(14, 18), (20, 16)])
            nprng = np.random.default_rng(rng.randrange(1 << 30))
            for side in ("left", "right"):
                with rasterio.open(os.path.join(tmp, f"{side}{i}.tif"), "w", driver="GTiff", height=rows, width=cols,
                                   count=1, dtype="float32") as dst:
                    dst.write(nprng.integers(0, 60, size=(rows, cols)).astype("float32"), 1)
            pipe = {
                "matching_cost": {"matching_cost_method": rng.choice(["sad", "zncc"]), "window_size": rng.choice([3, 5])},
                "disparity": {"disparity_method": "wta"},
                "filter": {"filter_method": rng.choice(["median", "bilateral"])},
            }
            if rng.random() < 0.5:
                pipe["validation"] = {"validation_method": "cross_checking_accurate"}
            user = {
                "input": {"left": {"img": os.path.join(tmp, f"left{i}.tif"), "disp": [-2, 2]},
                          "right": {"img": os.path.join(tmp, f"right{i}.tif")}},
                "pipeline": pipe,
            }
            cfg_path = os.path.join(tmp, f"cfg{i}.json")
            with open(cfg_path, "w", encoding="utf-8") as f:
                json.dump(user, f)
            out = os.path.join(tmp, f"out{i}")
            pandora.main(cfg_path, out, False)
            with open(os.path.join(out, "cfg", "config.json"), encoding="utf-8") as f:
                saved = json.load(f)
            machine = PandoraMachine()
            check_conf(copy.deepcopy(user), machine)
            reported = machine.margins.to_dict()
            report.case(key=f"main{i}:{json.dumps(pipe, sort_keys=True)}", nontrivial=True)
            report.hit("saved_eq_reported")
            if saved.get("margins") != reported:
                report.fail("saved_eq_reported", "config_json", {"user_cfg": user}, saved.get("margins"), f"reported {reported}")
    finally:
        shutil.rmtree(tmp, ignore_errors=True)


def translator_cross_check(report, status):
    """generated (kind, method) table vs the live registries; generated margin formulas vs live instances"""
    try:
        from translator import gen_margins

        data = gen_margins.extract()
    except Exception:  # reported by build_and_audit already
        return
    import pandora  # noqa: F401  pylint: disable=unused-import
    from pandora import aggregation, disparity, filter as flt, matching_cost, refinement

    live = {
        "matching_cost": matching_cost.AbstractMatchingCost.matching_cost_methods_avail,
        "aggregation": aggregation.AbstractAggregation.aggreg_methods_avail,
        "disparity": disparity.AbstractDisparity.disparity_methods_avail,
        "filter": flt.AbstractFilter.filter_methods_avail,
        "refinement": refinement.AbstractRefinement.subpixel_methods_avail,
    }
    gen = {}
    for kind, method, cls, _ in data["table"]:
        gen.setdefault(kind, {})[method] = cls
    for kind, reg in live.items():
        names = {k: v.__name__ for k, v in reg.items() if k != ms.STUB}
        report.translator_checks += 1
        if names != gen.get(kind, {}):
            status.problem("translator", f"registered classes of {kind}: source {gen.get(kind)} vs live {names}")


def run(ctx, report, status):
    translator_cross_check(report, status)
    report.rule = (
        "accepted pipelines over the real step classes (stub plugins for optimization/semantic_segmentation) with random "
        "parameters, matching-cost step values and image shapes, through the real PandoraMachine.check_conf on a fresh machine; "
        "plus random GlobalMargins API sequences and pandora.main runs; non-trivial = has a filter or more than two steps; "
        "distinct by (steps, shapes)"
    )
    rng = ctx.rng
    for name, case in core.load_corpus(PROP):
        check_case(ctx, report, case["pipeline"], case["steps"], case["rows"], case["cols"], case["rows2"], case["cols2"], "corpus:" + name)
    for _ in range(ctx.n(400, 5000)):
        kinds, names, pipe, steps = gen_pipeline(rng)
        rows, cols = rng.choice([(8, 9), (3, 40), (40, 2), (12, 12), (1, 1), (5, 30), (120, 7)])
        if rng.random() < 0.12:
            rows2, cols2 = rng.choice([(4, 4), (30, 30), (2, 50)])
        else:
            rows2, cols2 = rows, cols
        impl = check_case(ctx, report, pipe, steps, rows, cols, rows2, cols2, "rnd")
        report.count(f"len_{min(len(steps), 9)}")
        # monotone: adding one step anywhere never decreases the global margins
        if impl is not None and (rows, cols) == (rows2, cols2) and rng.random() < 0.5:
            mc_step = steps[0].get("step", 1)
            pos = rng.randrange(1, len(names) + 1)
            before = kinds[pos - 1]
            cv = ["aggregation", "semantic_segmentation", "cost_volume_confidence"] + (["optimization"] if mc_step == 1 else [])
            if "disparity" in kinds and pos > kinds.index("disparity"):
                newk = rng.choice(["filter", "refinement", "validation"])
            else:
                newk = rng.choice(cv)
            newn = newk + ".added"
            cfg, rec = gen_step(rng, newk, newn, mc_step)
            pipe2 = {}
            steps2 = []
            for i, n in enumerate(names):
                if i == pos:
                    pipe2[newn] = cfg
                    steps2.append(rec)
                pipe2[n] = pipe[n]
                steps2.append(steps[i])
            if pos == len(names):
                pipe2[newn] = cfg
                steps2.append(rec)
            d2, _err = impl_margins(pipe2, rows, cols)
            if d2 is not None:
                g2 = canon(d2)["global"]
                report.hit("monotone")
                if any(a > b for a, b in zip(impl["global"], g2)):
                    report.fail("monotone", "added:" + newk, {"pipeline": pipe, "added": {newn: cfg}, "position": pos, "rows": rows, "cols": cols},
                                {"before": impl["global"], "after": g2})
    api_ops(ctx, report)
    saved_margins(ctx, report)


def search(ctx, report, status):
    sub = core.Report(PROP, ctx.tier, ctx.seed)
    rng = ctx.rng
    for _ in range(1500):
        _kinds, _names, pipe, steps = gen_pipeline(rng)
        rows, cols = rng.choice([(8, 9), (3, 40), (40, 2), (12, 12), (1, 1)])
        check_case(ctx, sub, pipe, steps, rows, cols, rows, cols, "search")
        if sub.failures:
            return sub.failures[0]
    api_ops(ctx, sub)
    if not sub.failures:
        saved_margins(ctx, sub)
    return sub.failures[0] if sub.failures else None


def replay(ctx, report, path):
    with open(path, encoding="utf-8") as f:
        data = json.load(f)
    case = data.get("input", data)
    if "steps" in case:
        check_case(ctx, report, case["pipeline"], case["steps"], case["rows"], case["cols"], case["rows2"], case["cols2"], "replay")
    elif "ops" in case:
        api_ops(ctx, report)
    for fl in report.failures:
        print("spec failure:", fl["clause"], fl["trigger"], json.dumps(fl["impl"])[:400], fl["detail"][:400])
    for d in report.disagreements:
        print("disagreement:", json.dumps(d, default=str)[:600])
    print("replayed: failures=%d disagreements=%d" % (len(report.failures), len(report.disagreements)))
    return 1 if report.failures else 0
