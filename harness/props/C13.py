"""C13 — results are local: a pixel depends on its neighbourhood, not on its position."""
from __future__ import annotations

import json
import random
from fractions import Fraction

import numpy as np
import xarray as xr

from .. import core
from ..impl import pipelines as pl

PROP = "C13"


def gen_local_pipeline(rng):
    """pipelines made of the local steps named by the property"""
    meth = rng.choice(["sad", "ssd", "zncc", "census"])
    w = rng.choice([3, 5]) if meth == "census" else rng.choice([1, 3, 5])
    subpix = rng.choice([1, 1, 2, 4])
    pipe = {"matching_cost": {"matching_cost_method": meth, "window_size": w, "subpix": subpix}}
    radius_r = radius_c = (w - 1) // 2
    if rng.random() < 0.3:
        dist = rng.choice([2, 3])
        pipe["aggregation"] = {"aggregation_method": "cbca", "cbca_distance": dist, "cbca_intensity": rng.choice([8.0, 20.0])}
        # arms of arms, plus the 3x3 median pre-filter
        radius_r += dist + 1
        radius_c += dist + 1
    pipe["disparity"] = {"disparity_method": "wta", "invalid_disparity": rng.choice([-9999, "NaN"])}
    if rng.random() < 0.4:
        pipe["refinement"] = {"refinement_method": rng.choice(["vfit", "vfit", "quadratic"])}
    if rng.random() < 0.5:
        if rng.random() < 0.6:
            fs = rng.choice([3, 5])
            pipe["filter"] = {"filter_method": "median", "filter_size": fs}
            radius_r += fs // 2
            radius_c += fs // 2
        else:
            sig = rng.choice([0.5, 1.0])
            pipe["filter"] = {"filter_method": "bilateral", "sigma_color": 2.0, "sigma_space": sig}
            win = int(3 * sig + 1)
            radius_r += win
            radius_c += win
    cross = rng.random() < 0.5
    if cross:
        pipe["validation"] = {"validation_method": "cross_checking_accurate", "cross_checking_threshold": rng.choice([1.0, 0.0, 0.25])}
    return pipe, radius_r, radius_c, cross


def crop_ds(ds, r0, r1, c0, c1, keep_coords):
    out = ds.isel(row=slice(r0, r1), col=slice(c0, c1)).copy(deep=True)
    if not keep_coords:
        out = out.assign_coords(row=np.arange(r1 - r0), col=np.arange(c1 - c0))
    out.attrs = dict(ds.attrs)
    return out


def float_order_sensitive(pipe):
    """zncc costs are not integers: cbca sums them through float32 integral images whose rounding depends on where the
    accumulation starts (known finding C13-F2)"""
    return pipe["matching_cost"]["matching_cost_method"] == "zncc" and "aggregation" in pipe


def depth_scene(rng):
    """two regions of different depth and disturbed spots (seed C13-5): every line is a permutation of distinct
    radiometries, so matches are unambiguous; columns < bnd have true disparity d1, columns beyond have d2 << d1; at each
    spot p (in the first region) the left pixel is disturbed so that wta gives it disparity 0, cross-checking invalidates
    it (|0 + (-d1)| > 1), and the only right pixel that points back at it sits at p + d2.  A crop of the first region
    never sees a valid disparity near d2: whatever the step derives from "the disparities present in the map" differs
    between the crop and the whole image."""
    nprng = np.random.default_rng(rng.randrange(1 << 30))
    rows = rng.choice([5, 6, 8])
    cols = rng.choice([96, 110, 120])
    bnd = rng.choice([64, 72, 80])
    d1 = rng.choice([-2, -2, -3])
    d2 = d1 - rng.choice([3, 4])
    lo, hi = d2, rng.choice([1, 2])
    line_l = (10 * nprng.permutation(cols) + 100).astype(np.int64)
    line_r = (10 * nprng.permutation(cols) + 5000).astype(np.int64)  # matches nothing
    line_r[0:bnd] = line_l[-d1:bnd - d1]
    line_r[bnd:cols + d2] = line_l[bnd - d2:cols]
    spots = []
    p = rng.randrange(24, 30)
    while p < bnd - 26:
        b = line_l[p - d1]
        line_r[p + d1] = line_l[p + d1 - 1] + 4  # the right pixel that matched left p no longer does
        line_l[p] = b + 1                        # left p: closest right value at disparity 0
        line_r[p + d2] = b + 3                   # right p + d2: closest left value is left p (right disparity -d2)
        spots.append(p)
        p += rng.randrange(14, 22)
    imgs = []
    for side, line, with_disp in (("L", line_l, True), ("R", line_r, False)):
        ds = xr.Dataset({"im": (["row", "col"], np.tile(line, (rows, 1)).astype(np.float32))},
                        coords={"row": np.arange(rows), "col": np.arange(cols)})
        if with_disp:
            d = np.stack([np.full((rows, cols), lo, dtype=np.float32), np.full((rows, cols), hi, dtype=np.float32)])
            ds["disparity"] = xr.DataArray(d, dims=["band_disp", "row", "col"], coords={"band_disp": ["min", "max"]})
        ds.attrs = {"no_data_img": -9999, "valid_pixels": 0, "no_data_mask": 1, "crs": None, "transform": None,
                    "disparity_source": [int(lo), int(hi)] if with_disp else None, "side": side}
        imgs.append(ds)
    return imgs[0], imgs[1], rows, cols, lo, hi, bnd, spots


HYPS = {"left": 0}


def eval_hypotheses(ctx, report, case, left, right, cl, cr, pipe, r0, c0):
    """the decidable hypotheses of `run_crop_eq_whole` (Model/PipelineRun.lean: runOKB, cropRunB, leftInIntervalB,
    docConeOKB; both model runs return) on a real (whole, crop) input of the differential, and the theorem's conclusion
    on the crop pixels whose documented cone lies in the crop (`run_crop_eq_whole_of_B`)"""
    if "aggregation" in pipe:
        report.count("hyps_skipped_cbca_model_too_slow_on_these_sizes")
        return
    HYPS["left"] -= 1
    h = ctx.lean.call("C13.hyps", whole=model_payload(left, right, pipe), crop=model_payload(cl, cr, pipe), r0=r0, c0=c0,
                      spots=[[1, 1]])
    report.count("hyps_real_cases_evaluated")
    names = ("run_ok_whole", "run_ok_crop", "crop_run", "same_cfg", "returns_whole", "returns_crop", "left_in_interval_whole",
             "left_in_interval_crop", "doc_cone_ok")
    for k in names:
        if h[k]:
            report.count("hyps_true_" + k)
    if not h["spot_ok"]:
        report.disagree("driver: staged evaluation differs from the literal fullRunR", case, None, None)
    if all(h[k] for k in names):
        report.count("hyps_real_cases_satisfying_all_hypotheses_of_run_crop_eq_whole")
        report.count("hyps_pixels_with_cone_in_crop", h["pixels_in_cone"])
        report.count("hyps_pixels_model_crop_equals_model_whole", h["pixels_equal"])
        if h["pixels_in_cone"]:
            report.hit("model_run_crop_eq_whole_hypotheses_hold")
        if h["pixels_equal"] != h["pixels_in_cone"]:
            # impossible while the theorem builds: the model evaluated by the driver is the one the theorem is about
            report.disagree("model run contradicts run_crop_eq_whole_of_B", dict(case, crop=[r0, c0]), None, h["first_diff"])
    elif not (h["returns_whole"] and h["returns_crop"]):
        report.count("hyps_case_a_refinement_raises")


def run_whole_and_crops(ctx, report, gs, label, wide=False, force=None, tall=False):
    rng = random.Random(gs)
    if tall:
        # a tall pair of 12-bit radiometry matched with zncc (seed C13-4): the running sums behind the window means and
        # variances exceed 2^24 after a few rows, so a pixel far down the image must not depend on how many rows precede it
        rows, cols = rng.choice([(70, 12), (84, 11), (96, 10)])
        lo, hi = rng.choice([(-1, 1), (0, 2), (-2, 0)])
        left, right = pl.make_pair(rng, rows, cols, lo, hi, masks=False, smooth=True, vmax=4096)
        w = rng.choice([3, 5])
        pipe = {"matching_cost": {"matching_cost_method": "zncc", "window_size": w, "subpix": 1},
                "disparity": {"disparity_method": "wta", "invalid_disparity": -9999}}
        if rng.random() < 0.7:
            pipe["refinement"] = {"refinement_method": rng.choice(["vfit", "quadratic"])}
        rr = rc = (w - 1) // 2
        cross = False
    elif force == "depth_regions":
        left, right, rows, cols, lo, hi, bnd, spots = depth_scene(rng)
        pipe = {"matching_cost": {"matching_cost_method": "sad", "window_size": 1, "subpix": 1},
                "disparity": {"disparity_method": "wta", "invalid_disparity": rng.choice([-9999, "NaN"])},
                "validation": {"validation_method": "cross_checking_accurate", "cross_checking_threshold": 1.0}}
        rr = rc = 0
        cross = True
    elif wide:
        # a strip several internal processing blocks long (100 / 50 pixels) with a large no-data area: a tile starting
        # past the area must give the same values as the whole strip
        rows, cols = rng.choice([(8, 230), (9, 260), (7, 215)])
        lo, hi = rng.choice([(-1, 1), (0, 1), (-2, 0)])
        left, right = pl.make_pair(rng, rows, cols, lo, hi, masks=False, smooth=True)
        band = rng.choice([103, 106, 110])
        msk = np.zeros((rows, cols), dtype=np.int16)
        msk[:, :band] = 1
        left["msk"] = xr.DataArray(msk, dims=["row", "col"])
        right["msk"] = xr.DataArray(msk.copy(), dims=["row", "col"])
        w = rng.choice([1, 3])
        fs = rng.choice([3, 5])
        pipe = {"matching_cost": {"matching_cost_method": rng.choice(["sad", "census"]) if w == 3 else "sad", "window_size": w, "subpix": 1},
                "disparity": {"disparity_method": "wta", "invalid_disparity": -9999},
                "filter": rng.choice([{"filter_method": "median", "filter_size": fs},
                                      {"filter_method": "bilateral", "sigma_color": 2.0, "sigma_space": 1.0}])}
        rr = rc = (w - 1) // 2 + (fs // 2 if pipe["filter"]["filter_method"] == "median" else 4)
        cross = False
    else:
        rows, cols = rng.choice([(14, 22), (12, 26), (16, 20)])
        lo = rng.choice([-3, -2, -1, 0])
        hi = lo + rng.choice([1, 2, 3])
        left, right = pl.make_pair(rng, rows, cols, lo, hi, masks=(force == "cbca_mask") or rng.random() < 0.4, smooth=True)
        pipe, rr, rc, cross = gen_local_pipeline(rng)
        if force == "cbca_mask":
            # small no-data patches inside the image (their window dilation makes NaN costs next to valid radiometry),
            # integer costs, cbca: the integral images of the aggregation must not remember what precedes the crop
            for ds in (left, right):
                m = np.array(ds["msk"].data)
                for _ in range(rng.randrange(1, 4)):
                    r, c = rng.randrange(2, rows - 2), rng.randrange(4, cols - 4)
                    m[r:r + rng.randrange(1, 3), c:c + rng.randrange(1, 3)] = 1
                ds["msk"].data[:] = m
            w_old = pipe["matching_cost"]["window_size"]
            pipe["matching_cost"]["matching_cost_method"] = rng.choice(["sad", "ssd", "census"])
            pipe["matching_cost"]["window_size"] = rng.choice([3, 3, 5])
            delta = (pipe["matching_cost"]["window_size"] - 1) // 2 - (w_old - 1) // 2
            rr += delta
            rc += delta
            if "aggregation" not in pipe:
                dist = rng.choice([2, 3])
                pipe = {"matching_cost": pipe["matching_cost"],
                        "aggregation": {"aggregation_method": "cbca", "cbca_distance": dist, "cbca_intensity": rng.choice([8.0, 20.0])},
                        **{k: v for k, v in pipe.items() if k != "matching_cost"}}
                rr += dist + 1
                rc += dist + 1
        if force == "zncc_cbca":
            pipe["matching_cost"]["matching_cost_method"] = "zncc"
            pipe["matching_cost"]["window_size"] = 3
            if "aggregation" not in pipe:
                pipe = {"matching_cost": pipe["matching_cost"],
                        "aggregation": {"aggregation_method": "cbca", "cbca_distance": 3, "cbca_intensity": 20.0},
                        **{k: v for k, v in pipe.items() if k != "matching_cost"}}
                rr += 4
                rc += 4
    case = {"label": label, "pipeline": pipe, "shape": [rows, cols], "disp": [lo, hi], "radius": [rr, rc], "wide": wide}
    try:
        w_l, w_r, _ = pl.run_pipeline(left.copy(deep=True), right.copy(deep=True), pipe)
    except ZeroDivisionError:
        report.count("skipped_zero_division")
        return
    whole = pl.products(w_l)
    # column extent of the dependency cone of a left pixel: radii extended by the interval (twice with cross-checking)
    ext_lo = min(lo, 0) - (max(hi, 0) if cross else 0) - (1 if cross else 0)
    ext_hi = max(hi, 0) - (min(lo, 0) if cross else 0) + (1 if cross else 0)
    n_crops = 0
    n_pixels = 0
    for k in range(4):
        # crops that share some image borders and crops strictly inside, at every offset parity
        r0 = rng.choice([0, 0, 1, 2, 3]) if not wide else 0
        r1 = rng.choice([rows, rows, rows - 1, rows - 2]) if not wide else rows
        if tall:
            r0 = rng.choice([rows - 20, rows - 27, rows - 34, 40])
        c0 = rng.choice([0, 0, 1, 2, 3, 4]) if not wide else rng.choice([104, 108, 112, 117, 60])
        c1 = rng.choice([cols, cols, cols - 1, cols - 2, cols - 3])
        if force == "depth_regions":
            # crops of the first region only (the region of the other depth stays outside)
            r0, r1 = 0, rows
            c0 = rng.choice([0, 6, 13])
            c1 = bnd - rng.choice([10, 14, 19])
        if r1 - r0 < 2 * rr + 3 or c1 - c0 < 2 * rc + 3 + (ext_hi - ext_lo):
            continue
        keep = rng.random() < 0.5
        cl, cr = crop_ds(left, r0, r1, c0, c1, keep), crop_ds(right, r0, r1, c0, c1, keep)
        try:
            c_l, _c_r, _ = pl.run_pipeline(cl, cr, pipe)
        except ZeroDivisionError:
            report.count("skipped_zero_division")
            continue
        crop = pl.products(c_l)
        n_crops += 1
        if ctx.lean is not None and not wide and not tall and force != "depth_regions" and modelled(pipe) and HYPS["left"] > 0:
            eval_hypotheses(ctx, report, case, left, right, cl, cr, pipe, r0, c0)
        for r in range(r0, r1):
            for c in range(c0, c1):
                # cone of (r, c) clipped to the image must lie inside the crop
                if max(r - rr, 0) < r0 or min(r + rr, rows - 1) > r1 - 1:
                    continue
                if max(c - rc + ext_lo, 0) < c0 or min(c + rc + ext_hi, cols - 1) > c1 - 1:
                    continue
                n_pixels += 1
                a_d, b_d = whole["disparity_map"][r, c], crop["disparity_map"][r - r0, c - c0]
                a_m, b_m = whole["validity_mask"][r, c], crop["validity_mask"][r - r0, c - c0]
                if not ((a_d == b_d) or (np.isnan(a_d) and np.isnan(b_d))):
                    half = abs(float(a_d) * 2 % 2) == 1.0 or abs(float(b_d) * 2 % 2) == 1.0
                    report.fail("crop_eq_whole_disp", "zncc_cbca_float_rounding" if float_order_sensitive(pipe) else ("cross_check" if cross else "no_cross_check"),
                                dict(case, crop=[r0, r1, c0, c1], keep_coords=keep, pixel=[r, c]),
                                {"whole": float(a_d), "crop": float(b_d)})
                    return
                if a_m != b_m:
                    trig = "cross_check" if cross and ((int(a_m) ^ int(b_m)) & 0x300) else "flags"
                    if float_order_sensitive(pipe):
                        trig = "zncc_cbca_float_rounding"
                    sub = pipe["matching_cost"]["subpix"]
                    report.fail("crop_eq_whole_flags", f"{trig}:subpix{sub}" if trig == "cross_check" else trig,
                                dict(case, crop=[r0, r1, c0, c1], keep_coords=keep, pixel=[r, c]),
                                {"whole": int(a_m), "crop": int(b_m)})
                    return
    report.hit("crop_eq_whole_disp", n_crops)
    report.hit("crop_eq_whole_flags", n_crops)
    report.count("pixels_compared", n_pixels)
    # vertical flip: all windows being odd-sized, flipping both images flips the outputs
    fl = left.isel(row=slice(None, None, -1)).assign_coords(row=np.arange(rows)).copy(deep=True)
    fr = right.isel(row=slice(None, None, -1)).assign_coords(row=np.arange(rows)).copy(deep=True)
    fl.attrs, fr.attrs = dict(left.attrs), dict(right.attrs)
    try:
        if pipe.get("filter", {}).get("filter_method") == "bilateral":
            # the bilateral window may be even-sized (int(3 sigma + 1)) and its weighted sums are floating-point sums whose
            # order changes under a flip: outside the premise "all windows odd-sized" / exact arithmetic
            report.count("vflip_skipped_bilateral")
            raise ZeroDivisionError
        f_l, _f_r, _ = pl.run_pipeline(fl, fr, pipe)
        flipped = pl.products(f_l)
        report.hit("vflip_equivariant")
        for var in ("disparity_map", "validity_mask"):
            if not pl.same_array(whole[var][::-1], flipped[var]):
                report.fail("vflip_equivariant", "zncc_cbca_float_rounding" if float_order_sensitive(pipe) else var, case,
                            pl.first_diff(whole[var][::-1], flipped[var]))
                break
    except ZeroDivisionError:
        pass
    report.case(key=json.dumps([gs, pipe], sort_keys=True), nontrivial=n_pixels > 0,
                sample={"pipeline": pipe, "shape": [rows, cols], "disp": [lo, hi], "crops": n_crops, "pixels": n_pixels})


# --------------------------------------------------------------------------------------------
# composed model run (Model/PipelineRun.lean: fullRun / fullRunCbca) vs the real pandora.run
# --------------------------------------------------------------------------------------------
EXACT_MEASURES = ("sad", "ssd", "census")
_SRC = {}


def source_variants():
    """what the model is configured with besides the pipeline: read in the source text by the translators (the block
    splits T3, the refinement / cross-checking variants T11, the "minimum 1" rule of cbca), documented literals when a
    translator fails (already reported by build_and_audit)"""
    if _SRC:
        return _SRC
    lit = {"startY": 100, "stepY": 100, "stopYDim": 0, "startX": 100, "stepX": 100, "stopXDim": 1}
    blocks = {"wtaArgmin": dict(lit, beginY=["lit", 0], beginX=["lit", 0]),
              "median": dict(lit, beginY=["half", "", 2], beginX=["half", "", 2])}
    try:
        from translator import gen_blocks

        blocks = gen_blocks.extract()
    except Exception:  # pylint: disable=broad-except
        pass
    variant = {"flat": False, "or": False, "ends": False}
    cc = "asis"
    try:
        from translator import gen_refine_cc

        d = gen_refine_cc.extract()
        variant = {"flat": bool(d["quadratic_flat_guard"]), "or": bool(d["flag_update_is_or"]), "ends": bool(d["end_test_on_index"])}
        cc = "rule" if d["outside_searched"] else ("or" if d["outside_is_or"] else "asis")
    except Exception:  # pylint: disable=broad-except
        pass
    rule = "loopVar"
    try:
        from translator import gen_cbca

        rule = gen_cbca.extract()["min_rule"]
    except Exception:  # pylint: disable=broad-except
        pass
    import pandora.constants as cst

    _SRC.update(blocks=blocks, variant=variant, cc=cc, rule=rule, invalid_mask=int(cst.PANDORA_MSK_PIXEL_INVALID))
    return _SRC


def split_of(name, size):
    d = source_variants()["blocks"][name]
    out = {k: d[k] for k in ("startY", "stepY", "stopYDim", "startX", "stepX", "stopXDim")}
    for k in ("beginY", "beginX"):
        out[k] = d[k][1] if d[k][0] == "lit" else size // d[k][2]
    return out


def modelled(pipe):
    """is the pipeline one the composed model run covers: exact-cost measure, optional cbca, wta, optional refinement,
    optional median filter, cross-checking"""
    if pipe["matching_cost"]["matching_cost_method"] not in EXACT_MEASURES:
        return False
    if set(pipe) - {"matching_cost", "aggregation", "disparity", "refinement", "filter", "validation"}:
        return False
    if pipe.get("filter", {"filter_method": "median"})["filter_method"] != "median":
        return False
    return "validation" in pipe and "interpolated_disparity" not in pipe["validation"]


def model_payload(left, right, pipe):
    """the input of `C13.run` for a pair of datasets and a pipeline"""
    src = source_variants()
    mc = pipe["matching_cost"]
    rows, cols = left.sizes["row"], left.sizes["col"]
    grid = lambda a: [[core.enc(float(v)) for v in row] for row in np.asarray(a)]
    msk = lambda ds: [[int(v) for v in row] for row in ds["msk"].data] if "msk" in ds else None
    inv = pipe["disparity"].get("invalid_disparity", -9999)
    fs = int(pipe["filter"].get("filter_size", 3)) if "filter" in pipe else 0
    ref = None
    if "refinement" in pipe:
        ref = {"method": pipe["refinement"]["refinement_method"], "variant": dict(src["variant"])}
    agg = None
    if "aggregation" in pipe:
        a = pipe["aggregation"]
        agg = {"dist": int(a["cbca_distance"]), "I": core.enc(float(a["cbca_intensity"])), "rule": src["rule"]}
    return {
        "meas": mc["matching_cost_method"], "w": int(mc["window_size"]), "sp": int(mc["subpix"]), "rows": rows, "cols": cols,
        "L": [grid(left["im"].data)], "R": [grid(right["im"].data)], "mL": msk(left), "mR": msk(right),
        "valid": int(left.attrs["valid_pixels"]), "nodata": int(left.attrs["no_data_mask"]),
        "dmin": [[int(v) for v in row] for row in left["disparity"].sel(band_disp="min").data],
        "dmax": [[int(v) for v in row] for row in left["disparity"].sel(band_disp="max").data],
        "invalid": "nan" if (isinstance(inv, str) or inv != inv) else core.enc(float(inv)),
        "refine": ref, "fs": fs, "invalid_mask": src["invalid_mask"],
        "split_wta": split_of("wtaArgmin", 0), "split_median": split_of("median", fs),
        "cbca": agg,
        "cc": {"threshold": core.enc(float(pipe["validation"]["cross_checking_threshold"])), "offset": (int(mc["window_size"]) - 1) // 2,
               "variant": src["cc"]},
    }


TOL = 1e-6


def cmp_cells(impl, model, exact):
    """compare an implementation array with a model grid (wire values).  Returns (n_cells, n_exact, first difference);
    `exact`: the float must be the model's rational; otherwise within TOL·max(1, |model|) (float32 quotients)"""
    n = n_exact = 0
    for idx in np.ndindex(impl.shape):
        v = float(impl[idx])
        m = model
        for i in idx:
            m = m[i]
        m = core.dec(m)
        n += 1
        if isinstance(m, float):  # nan
            if v == v:
                return n, n_exact, {"index": list(idx), "impl": core.enc(v), "model": "nan"}
            n_exact += 1
            continue
        if v != v or v in (float("inf"), float("-inf")):
            return n, n_exact, {"index": list(idx), "impl": core.enc(v), "model": core.enc(m)}
        if Fraction(v) == m or float(np.float32(float(m))) == v:
            n_exact += 1
        elif exact or abs(v - float(m)) > TOL * max(1.0, abs(float(m))):
            return n, n_exact, {"index": list(idx), "impl": core.enc(v), "model": core.enc(m)}
    return n, n_exact, None


def cmp_masks(impl, model):
    a = np.asarray(impl).astype(np.int64)
    b = np.asarray(model, dtype=np.int64)
    if a.shape != b.shape:
        return a.size, {"shape": [list(a.shape), list(b.shape)]}
    d = np.argwhere(a != b)
    if len(d) == 0:
        return a.size, None
    i = tuple(int(v) for v in d[0])
    return a.size, {"index": list(i), "impl": int(a[i]), "model": int(b[i]), "count": int(len(d))}


def near_threshold(model_side, other_side, threshold, tol=10 * 1e-6):
    """pixels whose cross-checking decision |dL + dR(x + rint dL)| > threshold is within TOL of equality on values that
    are not float32 numbers (thirds of a refinement...): the float run may fall on the other side; they are excused"""
    out = set()
    f = model_side["filter"]
    g = other_side["filter"]
    if not isinstance(f, dict) or not isinstance(g, dict):
        return out
    for r, row in enumerate(f["disp"]):
        for c, w in enumerate(row):
            d = core.dec(w)
            if isinstance(d, float):
                continue
            q = c + int(np.rint(float(d)))
            if not 0 <= q < len(row):
                continue
            e = core.dec(g["disp"][r][q])
            if isinstance(e, float):
                continue
            dyadic = all(float(np.float32(float(v))) == v for v in (d, e))
            if not dyadic and abs(abs(float(d + e)) - threshold) <= tol:
                out.add((r, c))
    return out


def gen_composed(rng, cbca=None):
    rows, cols = rng.choice([(7, 11), (8, 12), (9, 10), (6, 14), (10, 13)])
    lo = rng.choice([-3, -2, -1, 0, 1])
    hi = lo + rng.choice([1, 2, 3])
    meth = rng.choice(EXACT_MEASURES)
    w = rng.choice([3, 5]) if meth == "census" else rng.choice([1, 3, 3, 5])
    pipe = {"matching_cost": {"matching_cost_method": meth, "window_size": w, "subpix": rng.choice([1, 1, 2, 4])}}
    if cbca if cbca is not None else rng.random() < 0.3:
        # the cbca model recomputes supports and running sums at every cell: small scenes
        rows, cols = rng.choice([(6, 9), (7, 10), (6, 11)])
        hi = min(hi, lo + 2)
        pipe["matching_cost"]["subpix"] = rng.choice([1, 1, 2])
        pipe["aggregation"] = {"aggregation_method": "cbca", "cbca_distance": rng.choice([2, 3, 5]),
                               "cbca_intensity": rng.choice([5.0, 10.0, 30.0])}
    pipe["disparity"] = {"disparity_method": "wta", "invalid_disparity": rng.choice([-9999, "NaN", -9999, 17])}
    if rng.random() < 0.8:
        pipe["refinement"] = {"refinement_method": rng.choice(["vfit", "vfit", "quadratic"])}
    if rng.random() < 0.85:
        pipe["filter"] = {"filter_method": "median", "filter_size": rng.choice([3, 3, 5])}
    pipe["validation"] = {"validation_method": "cross_checking_accurate", "cross_checking_threshold": rng.choice([1.0, 1.0, 0.0, 0.25, 2.0])}
    return rows, cols, lo, hi, pipe


def composed_vs_run(ctx, report, gs, label, cbca=None):
    """one pair through the real `pandora.run` (check_conf + run, every intermediate product captured) and through the
    composed run of the step models; every stage compared cell by cell"""
    rng = random.Random(gs)
    rows, cols, lo, hi, pipe = gen_composed(rng, cbca)
    left, right = pl.make_pair(rng, rows, cols, lo, hi, masks=rng.random() < 0.45, smooth=rng.random() < 0.6,
                               vmax=rng.choice([12, 40, 40]))
    if rng.random() < 0.3:
        # a per-pixel interval grid inside [lo, hi]
        nprng = np.random.default_rng(gs)
        a = nprng.integers(lo, hi + 1, size=(rows, cols))
        b = nprng.integers(lo, hi + 1, size=(rows, cols))
        left["disparity"].data[0] = np.minimum(a, b)
        left["disparity"].data[1] = np.maximum(a, b)
        report.count("composed_interval_grid")
    if rng.random() < 0.4:
        # ROI-offset coordinates
        r0, c0 = rng.randrange(1, 40), rng.randrange(1, 60)
        left = left.assign_coords(row=np.arange(r0, r0 + rows), col=np.arange(c0, c0 + cols))
        right = right.assign_coords(row=np.arange(r0, r0 + rows), col=np.arange(c0, c0 + cols))
        report.count("composed_roi_offset_coords")
    case = {"label": label, "pipeline": pipe, "shape": [rows, cols], "disp": [lo, hi]}
    payload = model_payload(left, right, pipe)
    res = pl.run_pipeline_traced(left.copy(deep=True), right.copy(deep=True), pipe)
    # the driver evaluates the stages once each; on these pixels it also evaluates the literal definitions
    # `fullRunR` / `afterFilterR` (which recompute every input at every cell) and compares
    payload["spots"] = [[rows // 2, cols // 2], [rng.randrange(rows), rng.randrange(cols)]]
    model = ctx.lean.call("C13.run", **payload)
    report.count("composed_runs")
    report.count("composed_literal_fullRunR_pixels", model["spots"])
    if not model["spot_ok"]:
        report.disagree("driver: staged evaluation differs from the literal fullRunR", case, None, payload["spots"])
    report.count("composed_measure_" + pipe["matching_cost"]["matching_cost_method"])
    for name in pipe:
        report.count("composed_step_" + name)
    if "refinement" in pipe:
        report.count("composed_refinement_" + pipe["refinement"]["refinement_method"])
    steps = dict(res["steps"])
    bad = []

    def note(stage, side, what, diff):
        if diff is not None:
            bad.append({"stage": stage, "side": side, "what": what, "diff": diff})

    def cells(stage, side, impl, grid, exact):
        n, n_exact, diff = cmp_cells(impl, grid, exact)
        report.count(f"composed_cells_{stage}", n)
        if not exact:
            report.count(f"composed_cells_{stage}_exactly_float32_of_model", n_exact)
        note(stage, side, "values", diff)

    def masks(stage, side, impl, grid, excused=()):
        n, diff = cmp_masks(impl, grid)
        if diff is not None and "index" in diff and excused:
            a = np.asarray(impl).astype(np.int64)
            b = np.asarray(grid, dtype=np.int64)
            rest = [tuple(int(v) for v in i) for i in np.argwhere(a != b) if tuple(int(v) for v in i) not in excused
                    or ((int(a[tuple(i)]) ^ int(b[tuple(i)])) & ~0x300)]
            report.count("composed_cross_check_pixels_excused_float_tie", int(len(np.argwhere(a != b))) - len(rest))
            diff = None if not rest else {"index": list(rest[0]), "impl": int(a[rest[0]]), "model": int(b[rest[0]]), "count": len(rest)}
        report.count(f"composed_flags_{stage}", n)
        note(stage, side, "flags", diff)

    raised = "error" in res
    for side in ("left", "right"):
        M = model[side]
        s = steps.get("matching_cost", {}).get(side)
        if s is not None:
            cells("matching_cost", side, s["cv"], M["mc"], True)
            masks("matching_cost", side, s["mask"], M["flags"])
        s = steps.get("aggregation", {}).get(side)
        if s is not None:
            cells("aggregation", side, s["cv"], M["cv"], False)
        s = steps.get("disparity", {}).get(side)
        if s is not None:
            cells("disparity", side, s["map"], M["wta"], True)
            masks("disparity", side, s["mask"], M["flags"])
        for stage, key in (("refinement", "refine"), ("filter", "filter")):
            if stage not in pipe:
                continue
            s = steps.get(stage, {}).get(side)
            if M[key] == "raises":
                if s is not None:
                    note(stage, side, "raises", {"impl": "returned", "model": "raises"})
                continue
            if s is None:  # the real run raised at or before this step: judged below
                continue
            # vfit / quadratic shifts and medians of an even number of values are float32 quotients
            cells(stage, side, s["map"], M[key]["disp"], False)
            masks(stage, side, s["mask"], M[key]["flag"])
        s = steps.get("validation", {}).get(side)
        if s is not None and M["cc"] != "raises":
            other = model["right" if side == "left" else "left"]
            excused = near_threshold(M, other, float(pipe["validation"]["cross_checking_threshold"])) if "refinement" in pipe or "aggregation" in pipe else ()
            cells("validation", side, s["map"], M["filter"]["disp"], False)
            masks("validation", side, s["mask"], M["cc"]["mask"], excused)
        elif s is not None:
            note("validation", side, "raises", {"impl": "returned", "model": "raises"})
    if raised:
        report.count(f"composed_run_raises_{res['error']}_at_{res['at']}")
        model_raises = any(model[sd][k] == "raises" for sd in ("left", "right") for k in ("refine",))
        if not (res["at"] == "refinement" and model_raises):
            bad.append({"stage": res["at"], "side": "-", "what": "raises", "diff": {"impl": res["error"], "model": "returned"}})
    if bad:
        report.disagree("composed model run vs pandora.run: " + bad[0]["stage"] + " " + bad[0]["what"], dict(case, first=bad[0]),
                        bad[0]["diff"].get("impl"), bad[0]["diff"].get("model"))
        report.count("composed_runs_disagreeing")
    report.case(key=json.dumps(["composed", gs, pipe], sort_keys=True), nontrivial=not raised,
                sample={"composed": True, "pipeline": pipe, "shape": [rows, cols], "disp": [lo, hi]})
    return not bad


# --------------------------------------------------------------------------------------------
# the extended composed run (Model/PipelineRun.lean: extRunR) vs the real pandora.run:
# repeated refinements / filters, bilateral filter, ambiguity band, both cross-checks, filling
# --------------------------------------------------------------------------------------------
def gen_extended(rng, kind):
    rows, cols = rng.choice([(7, 11), (8, 12), (9, 10), (6, 14)])
    lo = rng.choice([-3, -2, -1, 0, 1])
    hi = lo + rng.choice([1, 2, 3])
    meth = rng.choice(EXACT_MEASURES)
    w = rng.choice([3, 5]) if meth == "census" else rng.choice([1, 3, 3, 5])
    pipe = {"matching_cost": {"matching_cost_method": meth, "window_size": w, "subpix": rng.choice([1, 1, 2])}}
    if kind == "amb":
        cm = rng.choice(["ambiguity", "risk", "interval_bounds"])
        if cm == "interval_bounds":
            pipe["cost_volume_confidence"] = {"confidence_method": cm, "possibility_threshold": rng.choice([0.9, 0.75, 0.5]),
                                              "regularization": False}
        else:
            pipe["cost_volume_confidence"] = {"confidence_method": cm, "eta_max": rng.choice([0.7, 0.5]),
                                              "eta_step": rng.choice([0.01, 0.05, 0.125])}
            if cm == "ambiguity":
                pipe["cost_volume_confidence"]["normalization"] = False
    pipe["disparity"] = {"disparity_method": "wta", "invalid_disparity": rng.choice([-9999, "NaN", -9999])}
    ref = lambda: {"refinement_method": rng.choice(["vfit", "vfit", "quadratic"])}
    med = lambda: {"filter_method": "median", "filter_size": rng.choice([3, 3, 5])}
    if kind == "repeat":
        # repeated steps: the flag arithmetic of a second refinement (bit 3 raised twice), a filter between two refinements
        order = rng.choice([["refinement", "filter", "refinement.1"], ["refinement", "refinement.1", "filter"],
                            ["refinement", "filter", "refinement.1", "filter.1"], ["filter", "refinement", "filter.1"]])
        for name in order:
            pipe[name] = ref() if name.startswith("refinement") else med()
    elif kind == "bilateral":
        # the bilateral filter last in the tail, on a map of dyadic values (no refinement before it): its Gaussian weights
        # are tabulated on the differences of the values present
        if rng.random() < 0.4:
            pipe["filter"] = med()
            name = "filter.1"
        else:
            name = "filter"
        pipe[name] = {"filter_method": "bilateral", "sigma_color": rng.choice([0.5, 2.0, 10.0]), "sigma_space": rng.choice([0.4, 0.7, 1.0, 1.4])}
    else:
        if rng.random() < 0.8:
            pipe["refinement"] = ref()
        if rng.random() < 0.8:
            pipe["filter"] = med()
    val = {"validation_method": "cross_checking_accurate", "cross_checking_threshold": rng.choice([1.0, 1.0, 0.0, 2.0])}
    if kind == "fill" or rng.random() < 0.35:
        val["interpolated_disparity"] = rng.choice(["mc-cnn", "sgm"])
    pipe["validation"] = val
    return rows, cols, lo, hi, pipe


def fill_variant():
    try:
        from translator import gen_interp

        return gen_interp.variant_of(gen_interp.extract())
    except Exception:  # pylint: disable=broad-except
        return "guard+or"


def composed_ext_vs_run(ctx, report, gs, label, kind):
    """one pair through the real `pandora.run` and through the extended composed run of the step models (`C13.xrun`);
    every captured product compared with the corresponding stage of the model"""
    from ..impl import confidence as cf
    from ..impl import filters as fl

    rng = random.Random(gs)
    rows, cols, lo, hi, pipe = gen_extended(rng, kind)
    left, right = pl.make_pair(rng, rows, cols, lo, hi, masks=rng.random() < 0.45, smooth=rng.random() < 0.6,
                               vmax=rng.choice([12, 40, 40]))
    if rng.random() < 0.3:
        r0, c0 = rng.randrange(1, 40), rng.randrange(1, 60)
        left = left.assign_coords(row=np.arange(r0, r0 + rows), col=np.arange(c0, c0 + cols))
        right = right.assign_coords(row=np.arange(r0, r0 + rows), col=np.arange(c0, c0 + cols))
    case = {"label": label, "pipeline": pipe, "shape": [rows, cols], "disp": [lo, hi]}
    res = pl.run_pipeline_traced(left.copy(deep=True), right.copy(deep=True), pipe)
    steps = dict(res["steps"])
    names = list(pipe)
    tail_names = [n for n in names if n.split(".")[0] in ("refinement", "filter")]
    src = source_variants()
    base = {k: pipe[k] for k in ("matching_cost", "disparity", "validation")}
    payload = model_payload(left, right, base)
    tail = []
    skipped = None
    for n in tail_names:
        cfg = pipe[n]
        if n.startswith("refinement"):
            tail.append({"kind": "refine", "method": cfg["refinement_method"], "variant": dict(src["variant"])})
        elif cfg["filter_method"] == "median":
            fs = int(cfg["filter_size"])
            tail.append({"kind": "median", "fs": fs, "split": split_of("median", fs)})
        else:
            prev = names[names.index(n) - 1]
            snap = steps.get(prev, {})
            if "left" not in snap or "right" not in snap:
                skipped = "bilateral_input_not_captured"
                break
            ss, sc = float(cfg["sigma_space"]), float(cfg["sigma_color"])
            win = min(rows, cols, int(3 * ss + 1))
            vals = np.concatenate([snap[sd]["map"][(snap[sd]["mask"] & src["invalid_mask"]) == 0].ravel() for sd in ("left", "right")])
            spatial, diffs, rngw = fl.gaussian_tables(ss, sc, win, vals)
            tail.append({"kind": "bilateral", "sigma_space": core.enc(ss), "split": split_of("bilateral", win),
                         "spatial": [[core.enc(float(v)) for v in row] for row in spatial],
                         "range": [[core.enc(float(d)), core.enc(float(wt))] for d, wt in zip(diffs.tolist(), rngw.tolist())]})
    report.count("extended_runs")
    report.count("extended_kind_" + kind)
    if skipped:
        report.count("extended_skipped_" + skipped)
        report.case(key=json.dumps(["extended", gs], sort_keys=True), nontrivial=False)
        return True
    payload["tail"] = tail
    payload["fill"] = pipe["validation"].get("interpolated_disparity")
    payload["fill_cfg"] = {"variant": fill_variant()}
    etas = []
    if "cost_volume_confidence" in pipe:
        c = pipe["cost_volume_confidence"]
        payload["conf_method"] = c["confidence_method"]
        report.count("extended_confidence_" + c["confidence_method"])
        if c["confidence_method"] == "interval_bounds":
            payload["conf_threshold"] = core.enc(cf.f32(float(c["possibility_threshold"])))
        else:
            etas = cf.numba_etas(float(c["eta_max"]), float(c["eta_step"]))
    payload["etas"] = [core.enc(e) for e in etas]
    payload["spots"] = [[rows // 2, cols // 2], [rng.randrange(rows), rng.randrange(cols)]]
    model = ctx.lean.call("C13.xrun", **payload)
    report.count("extended_literal_extRunR_pixels", model["spots"])
    for n in names:
        report.count("extended_step_" + n)
    bad = []
    if not model["spot_ok"]:
        bad.append({"stage": "driver", "side": "-", "what": "staged evaluation differs from the literal extRunR", "diff": {}})

    def note(stage, side, what, diff):
        if diff is not None:
            bad.append({"stage": stage, "side": side, "what": what, "diff": diff})

    def cells(stage, side, impl, grid, exact, tol=TOL):
        n, n_exact, diff = cmp_cells(impl, grid, exact) if tol == TOL else cmp_cells_tol(impl, grid, tol)
        report.count(f"extended_cells_{stage.split('.')[0]}", n)
        note(stage, side, "values", diff)

    def masks(stage, side, impl, grid, excused=()):
        a = np.asarray(impl).astype(np.int64)
        b = np.asarray(grid, dtype=np.int64)
        rest = [tuple(int(v) for v in i) for i in np.argwhere(a != b)]
        rest = [i for i in rest if i not in excused or ((int(a[i]) ^ int(b[i])) & ~0x300)]
        report.count(f"extended_flags_{stage.split('.')[0]}", a.size)
        if rest:
            note(stage, side, "flags", {"index": list(rest[0]), "impl": int(a[rest[0]]), "model": int(b[rest[0]]), "count": len(rest)})

    raised = "error" in res
    noisy = any(t["kind"] == "bilateral" for t in tail)  # after a bilateral filter values are compared within 1e-5 (as C10 does)
    for side in ("left", "right"):
        M = model[side]
        s = steps.get("matching_cost", {}).get(side)
        if s is not None:
            cells("matching_cost", side, s["cv"], M["mc"], True)
            masks("matching_cost", side, s["mask"], M["flags"])
        if "cost_volume_confidence" in pipe and "cost_volume_confidence" in steps and (M.get("risk") is not None or M.get("bounds") is not None):
            # risk (max, min) / interval bounds (inf, sup): two bands; pixels whose margin is below 1e-5 are skipped
            key, names2, tol2 = ("risk", (("max", "confidence_from_risk_max"), ("min", "confidence_from_risk_min")), 1e-5) if M.get("risk") is not None \
                else ("bounds", (("inf", "confidence_from_interval_bounds_inf"), ("sup", "confidence_from_interval_bounds_sup")), 1e-6)
            bands = steps["cost_volume_confidence"].get("conf", {}).get(side, {})
            n_ok = n_small = 0
            for k2, nm in names2:
                band = bands.get(nm)
                if band is None:
                    note("cost_volume_confidence", side, "band " + nm, {"impl": "absent", "model": "present"})
                    continue
                for r in range(rows):
                    for c in range(cols):
                        mg = M[key]["margin"][r][c]
                        if mg is not None and core.dec(mg) < Fraction(1, 100000):
                            n_small += 1
                            continue
                        m = core.dec(M[key][k2][r][c])
                        v = float(band[r, c])
                        if (isinstance(m, float) and v != v) or (not isinstance(m, float) and v == v and abs(v - float(m)) <= tol2 * max(1.0, abs(float(m)))):
                            n_ok += 1
                        else:
                            note("cost_volume_confidence", side, key + " band " + k2, {"index": [r, c], "impl": core.enc(v), "model": core.enc(m)})
            report.count(f"extended_cells_{key}_bands", n_ok)
            report.count(f"extended_cells_{key}_small_margin_skipped", n_small)
            s2 = steps["cost_volume_confidence"].get(side)
            if s2 is not None:
                cells("cost_volume_confidence", side, s2["cv"], M["mc"], True)
                masks("cost_volume_confidence", side, s2["mask"], M["flags"])
                report.hit("later_stages_unchanged_by_confidence_step")
        if "cost_volume_confidence" in pipe and "cost_volume_confidence" in steps and M["amb"] is not None:
            band = steps["cost_volume_confidence"].get("conf", {}).get(side, {}).get("confidence_from_ambiguity")
            if band is None:
                note("cost_volume_confidence", side, "band", {"impl": "absent", "model": "present"})
            else:
                n_ok = n_small = 0
                for r in range(rows):
                    for c in range(cols):
                        mg = M["amb"]["margin"][r][c]
                        if mg is not None and core.dec(mg) < Fraction(1, 100000):
                            n_small += 1  # a normalised cost within 1e-5 of best + eta: float32 may count it differently
                            continue
                        m = core.dec(M["amb"]["band"][r][c])
                        v = float(band[r, c])
                        if (isinstance(m, float) and v != v) or (not isinstance(m, float) and abs(v - float(m)) <= 1e-6):
                            n_ok += 1
                        else:
                            note("cost_volume_confidence", side, "ambiguity band", {"index": [r, c], "impl": core.enc(v), "model": core.enc(m)})
                report.count("extended_cells_ambiguity_band", n_ok)
                report.count("extended_cells_ambiguity_small_margin_skipped", n_small)
            # the step writes a band and nothing else
            s2 = steps["cost_volume_confidence"].get(side)
            if s2 is not None:
                cells("cost_volume_confidence", side, s2["cv"], M["mc"], True)
                masks("cost_volume_confidence", side, s2["mask"], M["flags"])
                report.hit("later_stages_unchanged_by_confidence_step")
        s = steps.get("disparity", {}).get(side)
        if s is not None:
            cells("disparity", side, s["map"], M["wta"], True)
            masks("disparity", side, s["mask"], M["flags"])
        seen_bil = False
        for k, n in enumerate(tail_names):
            s = steps.get(n, {}).get(side)
            mk = M["tail"][k]
            seen_bil = seen_bil or tail[k]["kind"] == "bilateral"
            if mk == "raises":
                if s is not None:
                    note(n, side, "raises", {"impl": "returned", "model": "raises"})
                continue
            if s is None:
                continue
            cells(n, side, s["map"], mk["disp"], False, 1e-5 if seen_bil else TOL)
            masks(n, side, s["mask"], mk["flag"])
        s = steps.get("validation", {}).get(side)
        if s is not None and M["cc"] != "raises":
            # the captured product is the one after both cross-checks and the filling
            last = M["tail"][-1] if tail_names else {"disp": M["wta"]}
            other = model["right" if side == "left" else "left"]
            olast = other["tail"][-1] if tail_names else {"disp": other["wta"]}
            excused = near_threshold({"filter": last}, {"filter": olast}, float(pipe["validation"]["cross_checking_threshold"]), 1e-4 if noisy else 10 * TOL) \
                if (noisy or any(t["kind"] == "refine" for t in tail)) else set()
            if noisy:
                # after a bilateral filter a weighted mean that is exactly k + 1/2 in the rationals is k + 1/2 - 1e-7 in
                # float32: rint (the correspondent, the witness search) may fall on the other side; rows holding such a value
                # in either map are excused for bits 8 / 9
                def halves(g):
                    out = set()
                    for r_, row in enumerate(g["disp"]):
                        for w_ in row:
                            d_ = core.dec(w_)
                            if not isinstance(d_, float) and abs((float(d_) % 1.0) - 0.5) < 1e-4:
                                out.add(r_)
                    return out
                hr = halves(last) | halves(olast)
                excused = set(excused) | {(r_, c_) for r_ in hr for c_ in range(cols)}
            a = np.asarray(s["mask"]).astype(np.int64)
            b = np.asarray(M["fill"]["flag"], dtype=np.int64)
            diff = [tuple(int(v) for v in i) for i in np.argwhere(a != b)]
            if diff and excused and "interpolated_disparity" in pipe["validation"]:
                # a pixel whose cross-checking decision is a float tie changes what the filling sees around it
                report.count("extended_runs_filling_not_compared_float_tie")
            else:
                report.count("extended_cross_check_pixels_excused_float_tie", len([i for i in diff if i in excused]))
                masks("validation", side, s["mask"], M["fill"]["flag"], excused)
                cells("validation", side, s["map"], M["fill"]["disp"], False, 1e-5 if noisy else TOL)
                if "interpolated_disparity" in pipe["validation"]:
                    cc = np.asarray(M["cc"]["mask"], dtype=np.int64)
                    report.count("extended_pixels_filled_by_model", int(((cc & 0x300) != 0).sum() - ((b & 0x300) != 0).sum()))
        elif s is not None:
            note("validation", side, "raises", {"impl": "returned", "model": "raises"})
    if raised:
        report.count(f"extended_run_raises_{res['error']}_at_{res['at'].split('.')[0]}")
        model_raises = any(t == "raises" for sd in ("left", "right") for t in model[sd]["tail"])
        if not (res["at"].startswith("refinement") and model_raises):
            bad.append({"stage": res["at"], "side": "-", "what": "raises", "diff": {"impl": res["error"], "model": "returned"}})
    if bad:
        report.disagree("extended composed model run vs pandora.run: " + bad[0]["stage"] + " " + bad[0]["what"], dict(case, first=bad[0]),
                        bad[0]["diff"].get("impl"), bad[0]["diff"].get("model"))
        report.count("extended_runs_disagreeing")
    report.case(key=json.dumps(["extended", gs, pipe], sort_keys=True), nontrivial=not raised,
                sample={"extended": kind, "pipeline": pipe, "shape": [rows, cols], "disp": [lo, hi]})
    return not bad


def cmp_cells_tol(impl, model, tol):
    n = 0
    for idx in np.ndindex(impl.shape):
        v = float(impl[idx])
        m = model
        for i in idx:
            m = m[i]
        m = core.dec(m)
        n += 1
        if isinstance(m, float):
            if v == v:
                return n, 0, {"index": list(idx), "impl": core.enc(v), "model": "nan"}
        elif v != v or abs(v - float(m)) > tol * max(1.0, abs(float(m))):
            return n, 0, {"index": list(idx), "impl": core.enc(v), "model": core.enc(m)}
    return n, 0, None


# --------------------------------------------------------------------------------------------
# two scales: coarse chain, next-level interval grids (C15's model), fine chain on per-pixel grids
# --------------------------------------------------------------------------------------------
def two_scale_vs_run(ctx, report, gs, label):
    """`matching_cost, disparity, [filter median], multiscale (fixed_zoom_pyramid, 2 scales, factor 2, marge 0..2)` through the
    real `pandora.run` and through `twoScaleRun` (Model/PipelineRun.lean); the coarse images are taken from the real pyramid"""
    rng = random.Random(gs)
    rows, cols = rng.choice([(12, 18), (14, 20), (11, 17), (13, 22)])
    lo = rng.choice([-4, -2, 0])
    hi = lo + rng.choice([2, 4])
    meth = rng.choice(["census", "census", "sad"])
    w = rng.choice([3, 5]) if meth == "census" else rng.choice([1, 3])
    marge = rng.choice([0, 1, 2])
    pipe = {"matching_cost": {"matching_cost_method": meth, "window_size": w, "subpix": 1},
            "disparity": {"disparity_method": "wta", "invalid_disparity": rng.choice([-9999, "NaN"])}}
    if rng.random() < 0.5:
        pipe["filter"] = {"filter_method": "median", "filter_size": 3}
    pipe["multiscale"] = {"multiscale_method": "fixed_zoom_pyramid", "num_scales": 2, "scale_factor": 2, "marge": marge}
    left, right = pl.make_pair(rng, rows, cols, lo, hi, masks=False, smooth=rng.random() < 0.5)
    case = {"label": label, "pipeline": pipe, "shape": [rows, cols], "disp": [lo, hi]}
    res = pl.run_pipeline_traced(left.copy(deep=True), right.copy(deep=True), pipe)
    report.count("two_scale_runs")
    if "error" in res:
        report.count(f"two_scale_run_raises_{res['error']}_at_{res['at']}")
        report.case(key=json.dumps(["two_scale", gs]), nontrivial=False)
        return True
    names = [n for n, _ in res["steps"]]
    cut = names.index("multiscale") + 1
    coarse, fine = dict(res["steps"][:cut]), dict(res["steps"][cut:])
    src = source_variants()
    enc2 = lambda a: [[core.enc(float(v)) for v in row] for row in a]

    def mc_input(snap, dmin, dmax):
        im = snap["images"]
        r, c = im["left"]["im"].shape
        return {"meas": meth, "w": w, "sp": 1, "rows": r, "cols": c, "L": [enc2(im["left"]["im"])], "R": [enc2(im["right"]["im"])],
                "mL": None, "mR": None, "valid": 0, "nodata": 1, "dmin": [[dmin] * c for _ in range(r)], "dmax": [[dmax] * c for _ in range(r)]}

    tail = [{"kind": "median", "fs": 3, "split": split_of("median", 3)}] if "filter" in pipe else []
    inv = pipe["disparity"]["invalid_disparity"]
    model = ctx.lean.call("C13.twoscale", coarse=mc_input(coarse["matching_cost"], lo // 2, hi // 2), fine=mc_input(fine["matching_cost"], lo, hi),
                          invalid="nan" if isinstance(inv, str) else inv, invalid_mask=src["invalid_mask"], split_wta=split_of("wtaArgmin", 0),
                          tail=tail, marge=marge, f=2, user_min=core.enc(Fraction(lo, 2)), user_max=core.enc(Fraction(hi, 2)))
    bad = []
    if model == "raises":
        bad.append({"stage": "model", "what": "raises", "diff": {}})
        model = None

    def note(stage, what, diff):
        if diff is not None:
            bad.append({"stage": stage, "what": what, "diff": diff})

    if model is not None:
        last = "filter" if "filter" in pipe else "disparity"
        # coarse level: Gaussian-filtered radiometry (float32): census costs are exact, sad costs are float32 sums
        M = model["coarse"]
        s = coarse["matching_cost"]["left"]
        n, _, diff = cmp_cells_tol(s["cv"], M["mc"], 1e-5)
        report.count("two_scale_cells_coarse_cost_volume", n)
        note("coarse matching_cost", "values", diff)
        n, diff = cmp_masks(s["mask"], M["flags"])
        note("coarse matching_cost", "flags", diff)
        # a coarse winner decided by less than 1e-4 may differ in float32: those pixels are excused
        ties = set()
        for r_, row in enumerate(M["mc"]):
            for c_, costs in enumerate(row):
                v = sorted(float(core.dec(x)) for x in costs if x != "nan")
                if len(v) > 1 and 0 < v[1] - v[0] < 1e-4 * max(1.0, abs(v[0])):
                    ties.add((r_, c_))
        cm = coarse[last]["left"]
        if ties:
            report.count("two_scale_runs_skipped_coarse_float_tie")
        else:
            n, _, diff = cmp_cells(cm["map"], M["final"]["disp"], True)
            report.count("two_scale_cells_coarse_map", n)
            note("coarse " + last, "values", diff)
            n, diff = cmp_masks(cm["mask"], M["final"]["flag"])
            note("coarse " + last, "flags", diff)
            # next-level grids: what the fine matching cost receives
            gmin, gmax = fine["matching_cost"]["grids"]
            for nm, real, mod in (("min", gmin, model["grid_min"]), ("max", gmax, model["grid_max"])):
                real = np.asarray(real)[:rows, :cols]
                n, _, diff = cmp_cells(real, mod, True) if real.shape == (len(mod), len(mod[0])) else (0, 0, {"shape": [list(real.shape), [len(mod), len(mod[0])]]})
                report.count("two_scale_cells_next_level_grid_" + nm, n)
                note("next-level grid " + nm, "values", diff)
            narrowed = int((np.asarray(gmax)[:rows, :cols] - np.asarray(gmin)[:rows, :cols] < hi - lo).sum())
            report.count("two_scale_fine_pixels_with_narrowed_interval", narrowed)
            M = model["fine"]
            s = fine["matching_cost"]["left"]
            n, _, diff = cmp_cells(s["cv"], M["mc"], True)  # NaN pattern and values (integer radiometry)
            report.count("two_scale_cells_fine_cost_volume", n)
            report.count("two_scale_cells_fine_cost_volume_nan", int(np.isnan(s["cv"]).sum()))
            note("fine matching_cost", "values", diff)
            n, diff = cmp_masks(s["mask"], M["flags"])
            note("fine matching_cost", "flags", diff)
            fm = fine[last]["left"]
            if M["final"] == "raises":
                note("fine " + last, "raises", {"impl": "returned", "model": "raises"})
            else:
                n, _, diff = cmp_cells(fm["map"], M["final"]["disp"], True)
                report.count("two_scale_cells_final_map", n)
                note("fine " + last, "values", diff)
                n, diff = cmp_masks(fm["mask"], M["final"]["flag"])
                report.count("two_scale_flags_final", n)
                note("fine " + last, "flags", diff)
            report.hit("two_scale_composed_run_equals_pandora_run")
    if bad:
        report.disagree("two-scale composed model run vs pandora.run: " + bad[0]["stage"] + " " + bad[0]["what"], dict(case, first=bad[0]),
                        bad[0]["diff"].get("impl"), bad[0]["diff"].get("model"))
        report.count("two_scale_runs_disagreeing")
    report.case(key=json.dumps(["two_scale", gs, pipe], sort_keys=True), nontrivial=True,
                sample={"two_scale": True, "pipeline": pipe, "shape": [rows, cols], "disp": [lo, hi]})
    return not bad


def run(ctx, report, status):
    report.rule = (
        "real differential: a local pipeline (matching cost, optional cbca, wta, optional refinement / median or bilateral filter / "
        "cross-checking) on a whole 12-16 x 20-26 pair and on crops at every offset parity (array coordinates reset or kept), "
        "disparity and flags compared bit for bit on the pixels whose dependency cone (clipped to the image) lies inside the crop; "
        "plus wide strips crossing the 100-pixel blocks, cbca with no-data patches and tall 12-bit zncc pairs (crops far down the image); plus the vertically flipped pair; non-trivial = at least one cone-interior pixel compared; distinct by (seed, pipeline); plus the composed run of the step models (Lean: fullRun / fullRunCbca) against the real pandora.run on 6-10 x 9-14 pairs (sad/ssd/census, optional cbca, wta, optional vfit/quadratic, optional median, cross-checking; masks, per-pixel interval grids, ROI-offset coordinates), every intermediate product compared cell by cell; plus the extended composed run (extRunR) on the same kind of pairs: validation with interpolated_disparity mc-cnn / sgm after both cross-checks, repeated steps refinement.1 / filter.1, a bilateral filter last in the tail, a cost_volume_confidence ambiguity step (band compared, later stages unchanged); plus two-scale runs (matching_cost, disparity, [median], multiscale fixed_zoom_pyramid with 2 scales, marge 0-2) on 11-14 x 17-22 pairs: coarse map, next-level interval grids, fine cost volume and final map / flags compared with twoScaleRun"
    )
    HYPS["left"] = ctx.n(40, 400)
    src = source_variants()
    report.notes.append(f"composed model run configured from the source: refinement variant {src['variant']}, cross-checking "
                        f"variant {src['cc']}, cbca minimum rule {src['rule']}")
    for name, case in core.load_corpus(PROP):
        run_whole_and_crops(ctx, report, case["gen_seed"], "corpus:" + name, force=case.get("force"))
    for i in range(ctx.n(25, 300)):
        gs = ctx.rng.randrange(1 << 30)
        run_whole_and_crops(ctx, report, gs, f"gen_seed={gs}")
    for i in range(ctx.n(4, 30)):
        gs = ctx.rng.randrange(1 << 30)
        run_whole_and_crops(ctx, report, gs, f"gen_seed={gs},wide", wide=True)
        report.count("wide_strips")
    for i in range(ctx.n(6, 60)):
        gs = ctx.rng.randrange(1 << 30)
        run_whole_and_crops(ctx, report, gs, f"gen_seed={gs},cbca_mask", force="cbca_mask")
        report.count("cbca_with_nodata_patches")
    for i in range(ctx.n(3, 30)):
        gs = ctx.rng.randrange(1 << 30)
        run_whole_and_crops(ctx, report, gs, f"gen_seed={gs},tall", tall=True)
        report.count("tall_12bit_zncc")


    for i in range(ctx.n(4, 30)):
        gs = ctx.rng.randrange(1 << 30)
        run_whole_and_crops(ctx, report, gs, f"gen_seed={gs},depth_regions", force="depth_regions")
        report.count("depth_regions_with_disturbed_spots")
    # the composed run of the step models (Model/PipelineRun.lean) against the real pandora.run, stage by stage
    for i in range(ctx.n(16, 160)):
        gs = ctx.rng.randrange(1 << 30)
        composed_vs_run(ctx, report, gs, f"gen_seed={gs},composed", cbca=False)
    for i in range(ctx.n(4, 40)):
        gs = ctx.rng.randrange(1 << 30)
        composed_vs_run(ctx, report, gs, f"gen_seed={gs},composed_cbca", cbca=True)
    # the extended composed run (extRunR): filling after both cross-checks, repeated refinements / filters, bilateral filter,
    # ambiguity band
    for kind, nq, nt in (("fill", 4, 50), ("repeat", 4, 50), ("bilateral", 3, 40), ("amb", 4, 60)):
        for i in range(ctx.n(nq, nt)):
            gs = ctx.rng.randrange(1 << 30)
            composed_ext_vs_run(ctx, report, gs, f"gen_seed={gs},extended_{kind}", kind)
    # two scales: coarse chain, next-level interval grids (C15's model), fine chain on the per-pixel grids
    for i in range(ctx.n(4, 50)):
        gs = ctx.rng.randrange(1 << 30)
        two_scale_vs_run(ctx, report, gs, f"gen_seed={gs},two_scale")


def search(ctx, report, status):
    sub = core.Report(PROP, ctx.tier, ctx.seed)
    for _ in range(60):
        gs = ctx.rng.randrange(1 << 30)
        run_whole_and_crops(ctx, sub, gs, f"gen_seed={gs}")
        if sub.failures:
            return sub.failures[0]
    for _ in range(6):
        gs = ctx.rng.randrange(1 << 30)
        run_whole_and_crops(ctx, sub, gs, f"gen_seed={gs},depth_regions", force="depth_regions")
        if sub.failures:
            return sub.failures[0]
    for _ in range(6):
        gs = ctx.rng.randrange(1 << 30)
        run_whole_and_crops(ctx, sub, gs, f"gen_seed={gs},tall", tall=True)
        if sub.failures:
            return sub.failures[0]
    return None


def replay(ctx, report, path):
    import re

    with open(path, encoding="utf-8") as f:
        data = json.load(f)
    case = data.get("input", data)
    if "label" not in case and data.get("correspondence_disagreements"):
        # replay of a broken correspondence: the first disagreeing case of the composed stream
        case = data["correspondence_disagreements"][0]["case"]
    gs = int(re.search(r"gen_seed=(\d+)", case["label"]).group(1))
    if case["label"].endswith(",two_scale"):
        ok = two_scale_vs_run(ctx, report, gs, case["label"])
        for d in report.disagreements:
            print("disagreement:", d["what"], json.dumps(d["case"], default=str)[:400], d["impl"], d["model"])
        print("replayed: disagreements=%d" % len(report.disagreements))
        return 0 if ok else 1
    if ",extended_" in case["label"]:
        ok = composed_ext_vs_run(ctx, report, gs, case["label"], case["label"].split(",extended_")[1])
        for d in report.disagreements:
            print("disagreement:", d["what"], json.dumps(d["case"], default=str)[:400], d["impl"], d["model"])
        print("replayed: disagreements=%d" % len(report.disagreements))
        return 0 if ok else 1
    if ",composed" in case["label"]:
        ok = composed_vs_run(ctx, report, gs, case["label"], cbca=case["label"].endswith("_cbca"))
        for d in report.disagreements:
            print("disagreement:", d["what"], json.dumps(d["case"], default=str)[:400], d["impl"], d["model"])
        print("replayed: disagreements=%d" % len(report.disagreements))
        return 0 if ok else 1
    run_whole_and_crops(ctx, report, gs, case["label"], wide=case["label"].endswith(",wide"), tall=case["label"].endswith(",tall"),
                        force="cbca_mask" if case["label"].endswith(",cbca_mask") else ("depth_regions" if case["label"].endswith(",depth_regions") else None))
    for fl in report.failures:
        print("spec failure:", fl["clause"], fl["trigger"], json.dumps(fl["case"], default=str)[:300], fl["impl"])
    print("replayed: failures=%d" % len(report.failures))
    return 1 if report.failures else 0
