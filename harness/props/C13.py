"""C13 — results are local: a pixel depends on its neighbourhood, not on its position."""
from __future__ import annotations

import json
import random

import numpy as np
import xarray as xr

from .. import core
from ..impl import pipelines as pl

PROP = "C13"


def gen_local_pipeline(rng):
    """pipelines made of the local steps named by the property"""
    meth = rng.choice(["sad", "ssd", "zncc", "census"])
    w = rng.choice([3, 5]) if meth == "census" else rng.choice([1, 3, 5])
    subpix = rng.choice([1, 1, 2, 4])
    pipe = {"matching_cost": {"matching_cost_method": meth, "window_size": w, "subpix": subpix}}
    radius_r = radius_c = (w - 1) // 2
    if rng.random() < 0.3:
        dist = rng.choice([2, 3])
        pipe["aggregation"] = {"aggregation_method": "cbca", "cbca_distance": dist, "cbca_intensity": rng.choice([8.0, 20.0])}
        # arms of arms, plus the 3x3 median pre-filter
        radius_r += dist + 1
        radius_c += dist + 1
    pipe["disparity"] = {"disparity_method": "wta", "invalid_disparity": rng.choice([-9999, "NaN"])}
    if rng.random() < 0.4:
        pipe["refinement"] = {"refinement_method": rng.choice(["vfit", "vfit", "quadratic"])}
    if rng.random() < 0.5:
        if rng.random() < 0.6:
            fs = rng.choice([3, 5])
            pipe["filter"] = {"filter_method": "median", "filter_size": fs}
            radius_r += fs // 2
            radius_c += fs // 2
        else:
            sig = rng.choice([0.5, 1.0])
            pipe["filter"] = {"filter_method": "bilateral", "sigma_color": 2.0, "sigma_space": sig}
            win = int(3 * sig + 1)
            radius_r += win
            radius_c += win
    cross = rng.random() < 0.5
    if cross:
        pipe["validation"] = {"validation_method": "cross_checking_accurate", "cross_checking_threshold": rng.choice([1.0, 0.0, 0.25])}
    return pipe, radius_r, radius_c, cross


def crop_ds(ds, r0, r1, c0, c1, keep_coords):
    out = ds.isel(row=slice(r0, r1), col=slice(c0, c1)).copy(deep=True)
    if not keep_coords:
        out = out.assign_coords(row=np.arange(r1 - r0), col=np.arange(c1 - c0))
    out.attrs = dict(ds.attrs)
    return out


def float_order_sensitive(pipe):
    """zncc costs are not integers: cbca sums them through float32 integral images whose rounding depends on where the
    accumulation starts (known finding C13-F2)"""
    return pipe["matching_cost"]["matching_cost_method"] == "zncc" and "aggregation" in pipe


def run_whole_and_crops(ctx, report, gs, label, wide=False, force=None, tall=False):
    rng = random.Random(gs)
    if tall:
        # a tall pair of 12-bit radiometry matched with zncc (seed C13-4): the running sums behind the window means and
        # variances exceed 2^24 after a few rows, so a pixel far down the image must not depend on how many rows precede it
        rows, cols = rng.choice([(70, 12), (84, 11), (96, 10)])
        lo, hi = rng.choice([(-1, 1), (0, 2), (-2, 0)])
        left, right = pl.make_pair(rng, rows, cols, lo, hi, masks=False, smooth=True, vmax=4096)
        w = rng.choice([3, 5])
        pipe = {"matching_cost": {"matching_cost_method": "zncc", "window_size": w, "subpix": 1},
                "disparity": {"disparity_method": "wta", "invalid_disparity": -9999}}
        if rng.random() < 0.7:
            pipe["refinement"] = {"refinement_method": rng.choice(["vfit", "quadratic"])}
        rr = rc = (w - 1) // 2
        cross = False
    elif wide:
        # a strip several internal processing blocks long (100 / 50 pixels) with a large no-data area: a tile starting
        # past the area must give the same values as the whole strip
        rows, cols = rng.choice([(8, 230), (9, 260), (7, 215)])
        lo, hi = rng.choice([(-1, 1), (0, 1), (-2, 0)])
        left, right = pl.make_pair(rng, rows, cols, lo, hi, masks=False, smooth=True)
        band = rng.choice([103, 106, 110])
        msk = np.zeros((rows, cols), dtype=np.int16)
        msk[:, :band] = 1
        left["msk"] = xr.DataArray(msk, dims=["row", "col"])
        right["msk"] = xr.DataArray(msk.copy(), dims=["row", "col"])
        w = rng.choice([1, 3])
        fs = rng.choice([3, 5])
        pipe = {"matching_cost": {"matching_cost_method": rng.choice(["sad", "census"]) if w == 3 else "sad", "window_size": w, "subpix": 1},
                "disparity": {"disparity_method": "wta", "invalid_disparity": -9999},
                "filter": rng.choice([{"filter_method": "median", "filter_size": fs},
                                      {"filter_method": "bilateral", "sigma_color": 2.0, "sigma_space": 1.0}])}
        rr = rc = (w - 1) // 2 + (fs // 2 if pipe["filter"]["filter_method"] == "median" else 4)
        cross = False
    else:
        rows, cols = rng.choice([(14, 22), (12, 26), (16, 20)])
        lo = rng.choice([-3, -2, -1, 0])
        hi = lo + rng.choice([1, 2, 3])
        left, right = pl.make_pair(rng, rows, cols, lo, hi, masks=(force == "cbca_mask") or rng.random() < 0.4, smooth=True)
        pipe, rr, rc, cross = gen_local_pipeline(rng)
        if force == "cbca_mask":
            # small no-data patches inside the image (their window dilation makes NaN costs next to valid radiometry),
            # integer costs, cbca: the integral images of the aggregation must not remember what precedes the crop
            for ds in (left, right):
                m = np.array(ds["msk"].data)
                for _ in range(rng.randrange(1, 4)):
                    r, c = rng.randrange(2, rows - 2), rng.randrange(4, cols - 4)
                    m[r:r + rng.randrange(1, 3), c:c + rng.randrange(1, 3)] = 1
                ds["msk"].data[:] = m
            w_old = pipe["matching_cost"]["window_size"]
            pipe["matching_cost"]["matching_cost_method"] = rng.choice(["sad", "ssd", "census"])
            pipe["matching_cost"]["window_size"] = rng.choice([3, 3, 5])
            delta = (pipe["matching_cost"]["window_size"] - 1) // 2 - (w_old - 1) // 2
            rr += delta
            rc += delta
            if "aggregation" not in pipe:
                dist = rng.choice([2, 3])
                pipe = {"matching_cost": pipe["matching_cost"],
                        "aggregation": {"aggregation_method": "cbca", "cbca_distance": dist, "cbca_intensity": rng.choice([8.0, 20.0])},
                        **{k: v for k, v in pipe.items() if k != "matching_cost"}}
                rr += dist + 1
                rc += dist + 1
        if force == "zncc_cbca":
            pipe["matching_cost"]["matching_cost_method"] = "zncc"
            pipe["matching_cost"]["window_size"] = 3
            if "aggregation" not in pipe:
                pipe = {"matching_cost": pipe["matching_cost"],
                        "aggregation": {"aggregation_method": "cbca", "cbca_distance": 3, "cbca_intensity": 20.0},
                        **{k: v for k, v in pipe.items() if k != "matching_cost"}}
                rr += 4
                rc += 4
    case = {"label": label, "pipeline": pipe, "shape": [rows, cols], "disp": [lo, hi], "radius": [rr, rc], "wide": wide}
    try:
        w_l, w_r, _ = pl.run_pipeline(left.copy(deep=True), right.copy(deep=True), pipe)
    except ZeroDivisionError:
        report.count("skipped_zero_division")
        return
    whole = pl.products(w_l)
    # column extent of the dependency cone of a left pixel: radii extended by the interval (twice with cross-checking)
    ext_lo = min(lo, 0) - (max(hi, 0) if cross else 0) - (1 if cross else 0)
    ext_hi = max(hi, 0) - (min(lo, 0) if cross else 0) + (1 if cross else 0)
    n_crops = 0
    n_pixels = 0
    for k in range(4):
        # crops that share some image borders and crops strictly inside, at every offset parity
        r0 = rng.choice([0, 0, 1, 2, 3]) if not wide else 0
        r1 = rng.choice([rows, rows, rows - 1, rows - 2]) if not wide else rows
        if tall:
            r0 = rng.choice([rows - 20, rows - 27, rows - 34, 40])
        c0 = rng.choice([0, 0, 1, 2, 3, 4]) if not wide else rng.choice([104, 108, 112, 117, 60])
        c1 = rng.choice([cols, cols, cols - 1, cols - 2, cols - 3])
        if r1 - r0 < 2 * rr + 3 or c1 - c0 < 2 * rc + 3 + (ext_hi - ext_lo):
            continue
        keep = rng.random() < 0.5
        cl, cr = crop_ds(left, r0, r1, c0, c1, keep), crop_ds(right, r0, r1, c0, c1, keep)
        try:
            c_l, _c_r, _ = pl.run_pipeline(cl, cr, pipe)
        except ZeroDivisionError:
            report.count("skipped_zero_division")
            continue
        crop = pl.products(c_l)
        n_crops += 1
        for r in range(r0, r1):
            for c in range(c0, c1):
                # cone of (r, c) clipped to the image must lie inside the crop
                if max(r - rr, 0) < r0 or min(r + rr, rows - 1) > r1 - 1:
                    continue
                if max(c - rc + ext_lo, 0) < c0 or min(c + rc + ext_hi, cols - 1) > c1 - 1:
                    continue
                n_pixels += 1
                a_d, b_d = whole["disparity_map"][r, c], crop["disparity_map"][r - r0, c - c0]
                a_m, b_m = whole["validity_mask"][r, c], crop["validity_mask"][r - r0, c - c0]
                if not ((a_d == b_d) or (np.isnan(a_d) and np.isnan(b_d))):
                    half = abs(float(a_d) * 2 % 2) == 1.0 or abs(float(b_d) * 2 % 2) == 1.0
                    report.fail("crop_eq_whole_disp", "zncc_cbca_float_rounding" if float_order_sensitive(pipe) else ("cross_check" if cross else "no_cross_check"),
                                dict(case, crop=[r0, r1, c0, c1], keep_coords=keep, pixel=[r, c]),
                                {"whole": float(a_d), "crop": float(b_d)})
                    return
                if a_m != b_m:
                    trig = "cross_check" if cross and ((int(a_m) ^ int(b_m)) & 0x300) else "flags"
                    if float_order_sensitive(pipe):
                        trig = "zncc_cbca_float_rounding"
                    sub = pipe["matching_cost"]["subpix"]
                    report.fail("crop_eq_whole_flags", f"{trig}:subpix{sub}" if trig == "cross_check" else trig,
                                dict(case, crop=[r0, r1, c0, c1], keep_coords=keep, pixel=[r, c]),
                                {"whole": int(a_m), "crop": int(b_m)})
                    return
    report.hit("crop_eq_whole_disp", n_crops)
    report.hit("crop_eq_whole_flags", n_crops)
    report.count("pixels_compared", n_pixels)
    # vertical flip: all windows being odd-sized, flipping both images flips the outputs
    fl = left.isel(row=slice(None, None, -1)).assign_coords(row=np.arange(rows)).copy(deep=True)
    fr = right.isel(row=slice(None, None, -1)).assign_coords(row=np.arange(rows)).copy(deep=True)
    fl.attrs, fr.attrs = dict(left.attrs), dict(right.attrs)
    try:
        if pipe.get("filter", {}).get("filter_method") == "bilateral":
            # the bilateral window may be even-sized (int(3 sigma + 1)) and its weighted sums are floating-point sums whose
            # order changes under a flip: outside the premise "all windows odd-sized" / exact arithmetic
            report.count("vflip_skipped_bilateral")
            raise ZeroDivisionError
        f_l, _f_r, _ = pl.run_pipeline(fl, fr, pipe)
        flipped = pl.products(f_l)
        report.hit("vflip_equivariant")
        for var in ("disparity_map", "validity_mask"):
            if not pl.same_array(whole[var][::-1], flipped[var]):
                report.fail("vflip_equivariant", "zncc_cbca_float_rounding" if float_order_sensitive(pipe) else var, case,
                            pl.first_diff(whole[var][::-1], flipped[var]))
                break
    except ZeroDivisionError:
        pass
    report.case(key=json.dumps([gs, pipe], sort_keys=True), nontrivial=n_pixels > 0,
                sample={"pipeline": pipe, "shape": [rows, cols], "disp": [lo, hi], "crops": n_crops, "pixels": n_pixels})


def run(ctx, report, status):
    report.rule = (
        "real differential: a local pipeline (matching cost, optional cbca, wta, optional refinement / median or bilateral filter / "
        "cross-checking) on a whole 12-16 x 20-26 pair and on crops at every offset parity (array coordinates reset or kept), "
        "disparity and flags compared bit for bit on the pixels whose dependency cone (clipped to the image) lies inside the crop; "
        "plus wide strips crossing the 100-pixel blocks, cbca with no-data patches and tall 12-bit zncc pairs (crops far down the image); plus the vertically flipped pair; non-trivial = at least one cone-interior pixel compared; distinct by (seed, pipeline)"
    )
    for name, case in core.load_corpus(PROP):
        run_whole_and_crops(ctx, report, case["gen_seed"], "corpus:" + name, force=case.get("force"))
    for i in range(ctx.n(25, 300)):
        gs = ctx.rng.randrange(1 << 30)
        run_whole_and_crops(ctx, report, gs, f"gen_seed={gs}")
    for i in range(ctx.n(4, 30)):
        gs = ctx.rng.randrange(1 << 30)
        run_whole_and_crops(ctx, report, gs, f"gen_seed={gs},wide", wide=True)
        report.count("wide_strips")
    for i in range(ctx.n(6, 60)):
        gs = ctx.rng.randrange(1 << 30)
        run_whole_and_crops(ctx, report, gs, f"gen_seed={gs},cbca_mask", force="cbca_mask")
        report.count("cbca_with_nodata_patches")
    for i in range(ctx.n(3, 30)):
        gs = ctx.rng.randrange(1 << 30)
        run_whole_and_crops(ctx, report, gs, f"gen_seed={gs},tall", tall=True)
        report.count("tall_12bit_zncc")


def search(ctx, report, status):
    sub = core.Report(PROP, ctx.tier, ctx.seed)
    for _ in range(60):
        gs = ctx.rng.randrange(1 << 30)
        run_whole_and_crops(ctx, sub, gs, f"gen_seed={gs}")
        if sub.failures:
            return sub.failures[0]
    for _ in range(6):
        gs = ctx.rng.randrange(1 << 30)
        run_whole_and_crops(ctx, sub, gs, f"gen_seed={gs},tall", tall=True)
        if sub.failures:
            return sub.failures[0]
    return None


def replay(ctx, report, path):
    import re

    with open(path, encoding="utf-8") as f:
        data = json.load(f)
    case = data.get("input", data)
    gs = int(re.search(r"gen_seed=(\d+)", case["label"]).group(1))
    run_whole_and_crops(ctx, report, gs, case["label"], wide=case["label"].endswith(",wide"), tall=case["label"].endswith(",tall"),
                        force="cbca_mask" if case["label"].endswith(",cbca_mask") else None)
    for fl in report.failures:
        print("spec failure:", fl["clause"], fl["trigger"], json.dumps(fl["case"], default=str)[:300], fl["impl"])
    print("replayed: failures=%d" % len(report.failures))
    return 1 if report.failures else 0
