"""Run-time cross-check of translator/gen_kernels_cv_masked.py (called from harness/props/C02.py on every run of C02).

The translator's own exact evaluation (`pyexpr.evaluate`) of the per-cell NaN decisions it regenerated from
`AbstractMatchingCost.cv_masked` / `masks_dilatation` is compared, cell by cell, with the REAL functions:

  * real `masks_dilatation(left, right, window, subpix)` vs `left/rightMaskNan` fed with scipy's `binary_dilation` of the
    array `left/rightDilInput` selects (both images with their own mask conventions, different on purpose);
  * real `cv_masked` on a cost volume of zeros (coordinates and attributes laid out like `allocate_cost_volume`'s) vs
    `cvMaskedNanCell` (first loop: columns `p0 <= c < p1` of the plane, left cell, right cell of mask `iMaskRight(i_right)` at
    the returned column, `p0..q1` from the real `point_interval`) followed by `intervalNanCell` (second loop, per-pixel grids
    with integer and half-integer bounds).
A mismatch is a translator problem (the reading of numpy is wrong); a semantic edit of the source is not (both sides follow
it) — that breaks Properties/C02KernelsMasked.lean instead.  Also runs the generator's refused-edit self-test.
"""
from __future__ import annotations

from fractions import Fraction

import numpy as np


def _cases(rng, count):
    out = []
    for i in range(count):
        w = (1, 3, 3, 5)[i % 4]
        sp = (1, 2, 4)[i % 3]
        rows, cols = rng.randrange(max(2, w), w + 3), rng.randrange(w + 3, w + 8)
        kind = i % 5
        if kind == 0:
            a, b = -rng.randrange(1, 4), -rng.randrange(0, 1) - 1
            a = min(a, b)
        elif kind == 1:
            a = rng.randrange(1, 3)
            b = a + rng.randrange(0, 3)
        else:
            a, b = -rng.randrange(0, 3), rng.randrange(0, 3)
        out.append((rows, cols, w, sp, a, b))
    return out


def check(ctx, report, status):
    from translator import gen_kernels_cv_masked as T
    from translator import pyexpr
    from translator.common import Unsupported

    try:
        for what in T.refused_edit_problems():
            status.problem("translator", f"gen_kernels_cv_masked self-test: {what}")
        ks, errors = T.kernels()
    except Unsupported:
        return
    except Exception as exc:  # pylint: disable=broad-except
        status.problem("translator", f"gen_kernels_cv_masked crashed: {type(exc).__name__}: {exc}")
        return
    if errors:
        return  # reported by build_and_audit
    import xarray as xr
    from pandora import matching_cost
    from pandora.img_tools import shift_right_img
    from scipy.ndimage import binary_dilation

    from ..impl import criteria_pipeline as cp
    from .C04 import gen_mask

    def ev(name, *args):
        res, vals = pyexpr.evaluate(ks[name], *args)
        if res != "ok":
            raise RuntimeError(f"{name}{args}: {res}")
        return vals

    rng = ctx.rng.__class__(ctx.seed * 131 + 9)
    problems, n_cells = 0, 0

    def problem(msg):
        nonlocal problems
        problems += 1
        if problems <= 4:
            status.problem("translator", msg)

    for rows, cols, w, sp, a, b in _cases(rng, ctx.n(36, 200)):
        conv_l, conv_r = (0, 1, (2, 3)), (5, 7, (0, 1, 9))  # (valid, nodata, invalid codes): different for the two images
        ml = gen_mask(rng, rows, cols, rng.choice(["none", "sparse", "dense", "border"]))
        mr = gen_mask(rng, rows, cols, rng.choice(["none", "sparse", "dense", "columns"]))
        im = np.zeros((rows, cols), dtype=np.float32)
        left = cp.make_image(im, ml, valid_value=conv_l[0], nodata_value=conv_l[1], invalid_values=conv_l[2])
        right = cp.make_image(im, mr, valid_value=conv_r[0], nodata_value=conv_r[1], invalid_values=conv_r[2])
        geo = {"rows": rows, "cols": cols, "window": w, "subpix": sp, "interval": [a, b], "mask_left": ml, "mask_right": mr}
        try:
            mc = matching_cost.AbstractMatchingCost(**{"matching_cost_method": "sad", "window_size": w, "subpix": sp})
            # ---- masks_dilatation
            real_l, real_r = mc.masks_dilatation(left, right, w, sp)
            pred = {}
            for side, img, msk in (("left", left, ml), ("right", right, mr)):
                if msk is None:
                    pred[side] = np.zeros((rows, cols), dtype=bool)
                    continue
                code = img["msk"].data
                attrs = (conv_l[0], conv_l[1], conv_r[0], conv_r[1])
                dil_in = np.array([[ev(f"{side}DilInput", int(code[r, c]), *attrs)[0] for c in range(cols)] for r in range(rows)], dtype=bool)
                dil = binary_dilation(dil_in, structure=np.ones((w, w)), iterations=1)
                pred[side] = np.array([[ev(f"{side}MaskNan", int(code[r, c]), *attrs, bool(dil[r, c]))[0] for c in range(cols)]
                                       for r in range(rows)], dtype=bool)
                n_cells += rows * cols
            if (np.isnan(real_l.data) != pred["left"]).any() or (np.isnan(real_r[0].data) != pred["right"]).any():
                problem(f"translated masks_dilatation decisions differ from the real function on {geo}")
                continue
            # ---- cv_masked on a volume of zeros
            disp = np.arange(a * sp, b * sp + 1, dtype=np.float64) / sp
            cv = xr.Dataset({"cost_volume": (["row", "col", "disp"], np.zeros((rows, cols, len(disp)), dtype=np.float32))},
                            coords={"row": np.arange(rows), "col": np.arange(cols), "disp": disp})
            cv.attrs = {"offset_row_col": (w - 1) // 2, "window_size": w, "subpixel": sp}
            cv["validity_mask"] = xr.DataArray(np.zeros((rows, cols), dtype=np.int64), dims=["row", "col"])
            half = 0.5 if sp > 1 else 0
            lo = np.array([[rng.choice([a, a, a + 1, a + half, b]) for _ in range(cols)] for _ in range(rows)], dtype=np.float64)
            hi = np.array([[max(lo[r, c], rng.choice([b, b, b - 1, b - half, a + 1])) for c in range(cols)] for r in range(rows)])
            mc.cv_masked(left, right, cv, lo.copy(), hi.copy())
            real = np.isnan(cv["cost_volume"].data)
            shifted = shift_right_img(right, sp, None)
            rnan = [np.isnan(real_r[0].data), np.isnan(real_r[1].data) if sp != 1 else None]
            lnan = np.isnan(real_l.data)
            want = np.zeros(real.shape, dtype=bool)
            for j, d in enumerate(disp):
                i_right = int((d % 1) * sp)  # pinned statement of the source
                (p0, p1), (q0, q1) = mc.point_interval(left, shifted[i_right], d)
                i_mask = ev("iMaskRight", i_right)[0]
                for r in range(rows):
                    for c in range(cols):
                        g = ev("cvMaskedNanCell", c, p0, p1, q0, q1, False, False, False)[1]
                        arr = rnan[i_mask]
                        rn = bool(arr[r, g]) if 0 <= g < arr.shape[1] else False
                        n1 = ev("cvMaskedNanCell", c, p0, p1, q0, q1, False, bool(lnan[r, c]), rn)[0]
                        want[r, c, j] = ev("intervalNanCell", Fraction(float(d)), Fraction(float(lo[r, c])), Fraction(float(hi[r, c])), n1)[0]
                        n_cells += 1
            if (real != want).any():
                at = [int(v) for v in np.argwhere(real != want)[0]]
                problem(f"translated cv_masked decisions differ from the real function at (row, col, plane) {at}: real "
                        f"{bool(real[tuple(at)])}, translated {bool(want[tuple(at)])}; {geo} grids {lo.tolist()} {hi.tolist()}")
        except Exception as exc:  # pylint: disable=broad-except
            problem(f"cv_masked cross-check crashed on {geo}: {type(exc).__name__}: {str(exc)[:200]}")
    report.translator_checks += 2
    report.count("cv_masked_kernel_cells_compared", n_cells)
