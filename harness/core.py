"""Core of the check machinery: build + audit of the Lean side, the line-protocol client,
case bookkeeping, verdict, evidence and exit codes.  See DESIGN.md §3, §6, §10.

Exit codes: 0 held; 1 violation (VIOLATION line printed); 2 infrastructure failure / timeout.
"""
from __future__ import annotations

import fcntl
import glob
import json
import os
import random
import re
import subprocess
import sys
import time
from fractions import Fraction

VERIF = os.path.dirname(os.path.dirname(os.path.abspath(__file__)))
LEAN_DIR = os.path.join(VERIF, "lean")
REPO = os.environ.get("PANDORA_REPO", "/repo")
EVIDENCE_DIR = os.environ.get("VERIF_EVIDENCE_DIR") or os.path.join(VERIF, "evidence")  # override: measurement runs
REPLAY_DIR = os.path.join(EVIDENCE_DIR, "replay")
CORPUS_DIR = os.path.join(VERIF, "corpus")
KNOWN_FINDINGS = os.path.join(VERIF, "known_findings.json")
ALLOWED_AXIOMS = {"propext", "Classical.choice", "Quot.sound"}
FORBIDDEN = re.compile(
    r"\b(sorry|admit|native_decide|bv_decide|implemented_by|unsafe)\b|^\s*axiom\s|maxHeartbeats\s+0\b", re.M
)

TRUSTED_BASE = [
    "Lean 4.33.0 kernel (leanchecker re-check in the thorough tier)",
    "axioms allowed: propext, Classical.choice, Quot.sound (audited per theorem with #print axioms on every run)",
    "translator (/verif/translator, Python ast) and its cross-check against the live Python objects",
    "correspondence harness (/verif/harness): adapters, canonicalisation, comparison, generators",
    "modelled, not verified: IEEE-754 rounding, numpy/numba/scipy/xarray/rasterio primitives, the transitions "
    "and json_checker libraries (semantics stated in DESIGN.md §7)",
]


# --------------------------------------------------------------------------------------------
# encoding of numbers on the wire (exact)
# --------------------------------------------------------------------------------------------
def enc(x):
    """Encode a Python/numpy scalar exactly: ints as ints, floats as 'n/d', NaN as 'nan', inf as '±inf'."""
    import math

    if x is None:
        return None
    if isinstance(x, bool):
        return x
    if isinstance(x, int):
        return x
    if isinstance(x, Fraction):
        return x.numerator if x.denominator == 1 else f"{x.numerator}/{x.denominator}"
    if isinstance(x, str):
        return x
    try:
        import numpy as np

        if isinstance(x, np.bool_):
            return bool(x)
        if isinstance(x, np.integer):
            return int(x)
        if isinstance(x, np.floating):
            x = float(x)
        if isinstance(x, np.ndarray):
            return [enc(v) for v in x]
    except ImportError:  # pragma: no cover
        pass
    if isinstance(x, float):
        if math.isnan(x):
            return "nan"
        if math.isinf(x):
            return "inf" if x > 0 else "-inf"
        f = Fraction(x)
        return f.numerator if f.denominator == 1 else f"{f.numerator}/{f.denominator}"
    if isinstance(x, (list, tuple)):
        return [enc(v) for v in x]
    if isinstance(x, dict):
        return {k: enc(v) for k, v in x.items()}
    raise TypeError(f"cannot encode {type(x)}")


def dec(j):
    """Decode the wire value of a cell: Fraction, float('nan'), ±inf, or nested lists of those."""
    if isinstance(j, list):
        return [dec(v) for v in j]
    if isinstance(j, bool) or j is None:
        return j
    if isinstance(j, int):
        return Fraction(j)
    if isinstance(j, str):
        if j == "nan":
            return float("nan")
        if j == "inf":
            return float("inf")
        if j == "-inf":
            return float("-inf")
        if re.fullmatch(r"-?\d+(/\d+)?", j):
            return Fraction(j)
        return j
    if isinstance(j, float):
        return Fraction(j)
    if isinstance(j, dict):
        return {k: dec(v) for k, v in j.items()}
    return j


def same_cell(a, b) -> bool:
    """Exact equality of two decoded cells, NaN equal to NaN."""
    fa = isinstance(a, float)
    fb = isinstance(b, float)
    if fa or fb:
        if fa and fb:
            return (a != a and b != b) or a == b
        return False
    return a == b


# --------------------------------------------------------------------------------------------
# Lean build, audit, driver
# --------------------------------------------------------------------------------------------
class BuildStatus:
    def __init__(self):
        self.ok = True
        self.problems = []  # list of {"kind":..., "what":..., "detail":...}
        self.theorems = {}  # name -> list of axioms
        self.wall = 0.0
        self.generated = {}

    def problem(self, kind, what, detail=""):
        self.ok = False
        self.problems.append({"kind": kind, "what": what, "detail": detail[-4000:]})


def _lock():
    os.makedirs(os.path.join(LEAN_DIR, ".lake"), exist_ok=True)
    f = open(os.path.join(LEAN_DIR, ".lake", "verif-build.lock"), "w")
    fcntl.flock(f, fcntl.LOCK_EX)
    return f


def lake(args, timeout=3000):
    env = dict(os.environ)
    return subprocess.run(
        ["lake"] + args, cwd=LEAN_DIR, capture_output=True, text=True, timeout=timeout, env=env
    )


def strip_comments(src: str) -> str:
    # remove nested block comments and line comments (good enough for the token audit)
    out = []
    i = 0
    depth = 0
    n = len(src)
    while i < n:
        if src.startswith("/-", i):
            depth += 1
            i += 2
        elif depth and src.startswith("-/", i):
            depth -= 1
            i += 2
        elif depth:
            i += 1
        elif src.startswith("--", i):
            while i < n and src[i] != "\n":
                i += 1
        else:
            out.append(src[i])
            i += 1
    return "".join(out)


def token_audit(status: BuildStatus):
    for path in glob.glob(os.path.join(LEAN_DIR, "PandoraModel", "**", "*.lean"), recursive=True) + [
        os.path.join(LEAN_DIR, "Main.lean")
    ]:
        with open(path, encoding="utf-8") as f:
            src = strip_comments(f.read())
        # string literals may legitimately contain words; drop them
        src = re.sub(r'"(\\.|[^"\\])*"', '""', src)
        m = FORBIDDEN.search(src)
        if m:
            status.problem("forbidden-token", os.path.relpath(path, VERIF), m.group(0))


AXIOM_RE = re.compile(r"'([^']+)' depends on axioms: \[([^\]]*)\]")
NOAXIOM_RE = re.compile(r"'([^']+)' does not depend on any axioms")


def build_and_audit(prop: str, translate=None, thorough=False) -> BuildStatus:
    """Regenerate the translated files, build driver + property module, audit axioms."""
    status = BuildStatus()
    t0 = time.time()
    lock = _lock()
    try:
        # every extractor is re-run first (half a second in total): a generated file left behind by a run against
        # another tree (PANDORA_REPO) must never leak into this run; failures of extractors this property does not
        # depend on are not its business
        try:
            from translator import registry as _registry

            for _mod in _registry.modules():
                try:
                    _mod.generate()
                except Exception:  # pylint: disable=broad-except
                    pass
        except Exception:  # pylint: disable=broad-except
            pass
        if translate is not None:
            try:
                status.generated = translate() or {}
            except Exception as exc:  # Unsupported or a translator crash
                status.problem("translator", f"{type(exc).__name__}: {exc}")
        r = lake(["build", "driver"])
        if r.returncode != 0:
            status.problem("driver-build", "lake build driver failed", r.stdout + r.stderr)
        mods = [f"PandoraModel.Properties.{prop}"]
        # every module the audit file imports must be built (a property may be spread over several files)
        try:
            with open(os.path.join(LEAN_DIR, "PandoraModel", "Audit", f"{prop}.lean"), encoding="utf-8") as f:
                for line in f:
                    m = re.match(r"\s*import\s+(PandoraModel\.\S+)", line)
                    if m and m.group(1) not in mods:
                        mods.append(m.group(1))
        except FileNotFoundError:
            pass
        r = lake(["build"] + mods)
        if r.returncode != 0:
            status.problem("proof-build", f"lake build {' '.join(mods)} failed", r.stdout + r.stderr)
        else:
            audit = os.path.join("PandoraModel", "Audit", f"{prop}.lean")
            r = lake(["env", "lean", audit])
            out = r.stdout + r.stderr
            if r.returncode != 0:
                status.problem("audit", f"lean {audit} failed", out)
            for m in AXIOM_RE.finditer(out.replace("\n ", " ").replace("\n", " ")):
                axs = [a.strip() for a in m.group(2).split(",") if a.strip()]
                status.theorems[m.group(1)] = axs
                bad = [a for a in axs if a not in ALLOWED_AXIOMS]
                if bad:
                    status.problem("axiom", f"{m.group(1)} depends on {bad}")
            for m in NOAXIOM_RE.finditer(out):
                status.theorems[m.group(1)] = []
            if not status.theorems and r.returncode == 0:
                status.problem("audit", "no theorem audited", out)
            if thorough and status.ok:
                for mod in mods:
                    r = lake(["env", "leanchecker", mod], timeout=3000)
                    if r.returncode != 0:
                        status.problem("leanchecker", f"leanchecker rejected {mod}", r.stdout + r.stderr)
                # the rest of the library is other properties' business: its state is recorded, not judged here
                r = lake(["build"])
                status.generated["full_library_build"] = "ok" if r.returncode == 0 else "failed (another property's module; see its own check)"
        token_audit(status)
    finally:
        lock.close()
    status.wall = time.time() - t0
    return status


class LeanDriver:
    """Client of the compiled line-protocol driver (lean/.lake/build/bin/driver)."""

    def __init__(self):
        exe = os.path.join(LEAN_DIR, ".lake", "build", "bin", "driver")
        if not os.path.exists(exe):
            raise RuntimeError("driver not built")
        self.p = subprocess.Popen([exe], stdin=subprocess.PIPE, stdout=subprocess.PIPE, text=True, bufsize=1)
        self.calls = 0

    def call(self, op: str, **payload):
        payload["op"] = op
        self.p.stdin.write(json.dumps(payload) + "\n")
        self.p.stdin.flush()
        line = self.p.stdout.readline()
        if not line:
            raise RuntimeError(f"driver died on op {op}")
        self.calls += 1
        r = json.loads(line)
        if "err" in r:
            raise RuntimeError(f"driver error on {op}: {r['err']}")
        return r["ok"]

    def close(self):
        try:
            self.p.stdin.close()
            self.p.wait(timeout=10)
        except Exception:  # pylint: disable=broad-except
            self.p.kill()


# --------------------------------------------------------------------------------------------
# run bookkeeping
# --------------------------------------------------------------------------------------------
class Report:
    """What one run explored: cases, clause hits, disagreements (model vs implementation), spec failures."""

    def __init__(self, prop: str, tier: str, seed: int):
        self.prop = prop
        self.tier = tier
        self.seed = seed
        self.evaluations = 0
        self.nontrivial_keys = set()
        self.samples = []
        self.clause_hits = {}
        self.distribution = {}
        self.disagreements = []  # model != implementation
        self.failures = []  # spec false on implementation output
        self.notes = []
        self.exhaustive = False
        self.rule = ""
        self.translator_checks = 0

    def case(self, key=None, nontrivial=True, sample=None):
        self.evaluations += 1
        if nontrivial and key is not None:
            self.nontrivial_keys.add(key if isinstance(key, (str, int, tuple)) else json.dumps(key, sort_keys=True))
        if sample is not None and len(self.samples) < 5:
            self.samples.append(sample)

    def hit(self, clause: str, n: int = 1):
        self.clause_hits[clause] = self.clause_hits.get(clause, 0) + n

    def count(self, key: str, n: int = 1):
        self.distribution[key] = self.distribution.get(key, 0) + n

    def disagree(self, what: str, case, impl, model):
        if len(self.disagreements) < 50:
            self.disagreements.append({"what": what, "case": case, "impl": impl, "model": model})

    def fail(self, clause: str, trigger: str, case, impl=None, detail=""):
        """The specification is false on the implementation's output for `case`."""
        # cap per (clause, trigger) so that many reproductions of one known finding cannot hide a new failure
        key = (clause, trigger)
        self._fail_counts = getattr(self, "_fail_counts", {})
        self._fail_counts[key] = self._fail_counts.get(key, 0) + 1
        if self._fail_counts[key] <= 20 and len(self.failures) < 2000:
            self.failures.append({"clause": clause, "trigger": trigger, "case": case, "impl": impl, "detail": detail})


class Ctx:
    def __init__(self, prop: str, tier: str, seed: int):
        self.prop = prop
        self.tier = tier
        self.seed = seed
        self.rng = random.Random(seed * 1000003 + sum(map(ord, prop)))
        self.lean = None
        self.t0 = time.time()
        self.thorough = tier == "thorough"

    def n(self, quick: int, thorough: int) -> int:
        return thorough if self.thorough else quick


def load_known(prop: str):
    try:
        with open(KNOWN_FINDINGS, encoding="utf-8") as f:
            data = json.load(f)
    except FileNotFoundError:
        return []
    return [e for e in data.get("findings", []) if e.get("property") == prop and e.get("status") == "known"]


def load_corpus(prop: str):
    out = []
    for path in sorted(glob.glob(os.path.join(CORPUS_DIR, prop, "*.json"))):
        with open(path, encoding="utf-8") as f:
            out.append((os.path.basename(path), json.load(f)))
    return out


def write_replay(prop: str, payload) -> str:
    os.makedirs(REPLAY_DIR, exist_ok=True)
    n = 0
    while os.path.exists(os.path.join(REPLAY_DIR, f"{prop}-{n}.json")):
        n += 1
    path = os.path.join(REPLAY_DIR, f"{prop}-{n}.json")
    with open(path, "w", encoding="utf-8") as f:
        json.dump(payload, f, indent=1, default=str)
    return os.path.relpath(path, VERIF)


def write_evidence(prop, tier, seed, status: BuildStatus, report: Report, wall, violations, extra=None):
    os.makedirs(EVIDENCE_DIR, exist_ok=True)
    obligations = len(status.theorems)
    discharged = sum(1 for axs in status.theorems.values() if all(a in ALLOWED_AXIOMS for a in axs))
    if not status.ok and any(p["kind"] in ("proof-build", "audit", "translator") for p in status.problems):
        discharged = 0
    coverage = {
        "obligations": obligations,
        "discharged": discharged,
        "checker_cmd": f"cd lean && lake build PandoraModel.Properties.{prop} && lake env lean PandoraModel/Audit/{prop}.lean"
        + (" && lake env leanchecker PandoraModel.Properties." + prop if tier == "thorough" else ""),
        "trusted_base": TRUSTED_BASE,
        "theorems": {k: v for k, v in sorted(status.theorems.items())},
        "evaluations": report.evaluations,
        "distinct_nontrivial": len(report.nontrivial_keys),
        "rule": report.rule,
        "samples": report.samples[:5] if report.samples else [],
        "clause_hits": report.clause_hits,
        "input_distribution": report.distribution,
        "disagreements_model_vs_impl": len(report.disagreements),
        "spec_failures_on_impl": len(report.failures),
        "translator": status.generated,
        "translator_cross_checks": report.translator_checks,
        "build_problems": status.problems,
        "exhaustive": report.exhaustive,
        "notes": report.notes,
        "build_wall_s": round(status.wall, 2),
    }
    if extra:
        coverage.update(extra)
    ev = {
        "property_id": prop,
        "tier": tier,
        "seed": seed,
        "level": "proof",
        "coverage": coverage,
        "assumptions": [
            "theorems are about the Lean model; the model is tied to /repo's working tree by the translator "
            "(tables regenerated on this run) and by the correspondence run summarised in coverage",
            "floating point is modelled by exact rationals; inputs of the correspondence are chosen so that "
            "IEEE arithmetic is exact or compared within the tolerance stated in DESIGN.md",
        ],
        "wall_s": round(wall, 2),
        "violations": violations,
    }
    path = os.path.join(EVIDENCE_DIR, f"{prop}.json")
    tmp = path + ".tmp"
    with open(tmp, "w", encoding="utf-8") as f:
        json.dump(ev, f, indent=1, default=str)
    os.replace(tmp, path)
    return path


def finish(ctx: Ctx, status: BuildStatus, report: Report, search=None, extra=None) -> int:
    """Decide the verdict (DESIGN.md §6), write evidence, print the interface lines."""
    prop = ctx.prop
    known = load_known(prop)
    unknown = []
    reproduced = {}
    for f in report.failures:
        match = next((k for k in known if k.get("clause") == f["clause"] and k.get("trigger") == f["trigger"]), None)
        if match is not None:
            reproduced.setdefault(match["id"], match)
        else:
            unknown.append(f)
    lines = []
    code = 0
    violations = 0
    if unknown:
        f = unknown[0]
        path = write_replay(
            prop,
            {
                "property": prop,
                "kind": "spec-failure-on-implementation",
                "clause": f["clause"],
                "trigger": f["trigger"],
                "input": f["case"],
                "implementation_output": f["impl"],
                "detail": f["detail"],
                "replay": f"./check {prop} --replay <this file>",
                "other_failures": len(unknown) - 1,
            },
        )
        lines.append(f"VIOLATION property={prop} replay={path}")
        violations = len(unknown)
        code = 1
    elif not status.ok or report.disagreements:
        # a broken proof / translator / correspondence is not by itself a violation: search for a failing input
        found = None
        if search is not None and ctx.lean is not None:
            # the search is bounded in time (VERIF_SEARCH_SECONDS, default 420 s quick / 2400 s thorough): when nothing fails
            # the specification, the verdict is `no-failing-input-found` either way, and a run must end in minutes
            budget = int(os.environ.get("VERIF_SEARCH_SECONDS", "2400" if ctx.tier == "thorough" else "420"))

            class _SearchTimeUp(BaseException):  # not an Exception: the searches catch Exception around implementation calls
                pass

            def _alarm(_signum, _frame):
                raise _SearchTimeUp()

            old_handler = None
            try:
                import signal  # pylint: disable=import-outside-toplevel

                old_handler = signal.signal(signal.SIGALRM, _alarm)
                signal.alarm(max(1, budget))
            except (ValueError, AttributeError):  # not the main thread / no SIGALRM: run unbounded
                old_handler = None
            try:
                found = search()
            except _SearchTimeUp:
                report.notes.append(f"directed search stopped at its time budget ({budget} s) without a failing input")
            except Exception as exc:  # pylint: disable=broad-except
                report.notes.append(f"directed search crashed: {type(exc).__name__}: {exc}")
            finally:
                if old_handler is not None:
                    signal.alarm(0)
                    signal.signal(signal.SIGALRM, old_handler)
        if found is not None and not any(
            k.get("clause") == found["clause"] and k.get("trigger") == found["trigger"] for k in known
        ):
            path = write_replay(
                prop,
                {
                    "property": prop,
                    "kind": "spec-failure-on-implementation (found by directed search after a broken obligation)",
                    "clause": found["clause"],
                    "trigger": found["trigger"],
                    "input": found["case"],
                    "implementation_output": found.get("impl"),
                    "detail": found.get("detail", ""),
                    "broken": status.problems,
                    "disagreements": report.disagreements[:3],
                },
            )
            lines.append(f"VIOLATION property={prop} replay={path}")
        else:
            path = write_replay(
                prop,
                {
                    "property": prop,
                    "kind": "obligation-no-longer-checks",
                    "broken_theorems_or_translator": status.problems,
                    "correspondence_disagreements": report.disagreements[:5],
                    "note": "the property is no longer shown to hold; no input falsifying the specification "
                    "on the implementation was found by the directed search",
                },
            )
            lines.append(f"VIOLATION property={prop} replay={path} no-failing-input-found")
        violations = 1
        code = 1
    for k in reproduced.values():
        lines.append(f"KNOWN-FINDING: property={prop} {k['id']} {k['what']}")
    wall = time.time() - ctx.t0
    write_evidence(prop, ctx.tier, ctx.seed, status, report, wall, violations, extra)
    for line in lines:
        print(line)
    summary = (
        f"[{prop}] tier={ctx.tier} seed={ctx.seed} theorems={len(status.theorems)} build_ok={status.ok} "
        f"cases={report.evaluations} nontrivial={len(report.nontrivial_keys)} disagreements={len(report.disagreements)} "
        f"spec_failures={len(report.failures)} (known {len(report.failures) - len(unknown)}) wall={wall:.1f}s"
    )
    print(summary)
    for p in status.problems:
        print(f"  build problem: {p['kind']}: {p['what']}")
        if p["detail"]:
            print("    " + p["detail"][-1500:].replace("\n", "\n    "))
    for d in report.disagreements[:3]:
        print("  disagreement:", json.dumps(d, default=str)[:1500])
    sys.stdout.flush()
    return code
