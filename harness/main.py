"""Entry point:  ./check Cxx [--tier quick|thorough] [--replay file]"""
from __future__ import annotations

import argparse
import importlib
import os
import signal
import sys
import traceback

from . import core


def _quiet_transitions():
    """PandoraMachine overrides `may_<trigger>` helpers of the transitions library, which logs one warning per trigger"""
    import logging

    class _Drop(logging.Filter):
        def filter(self, record):
            return "Skip binding of" not in record.getMessage()

    logging.getLogger("transitions.core").addFilter(_Drop())


def main(argv=None) -> int:
    _quiet_transitions()
    ap = argparse.ArgumentParser()
    ap.add_argument("prop")
    ap.add_argument("--tier", default=os.environ.get("VERIF_TIER", "quick"), choices=["quick", "thorough"])
    ap.add_argument("--replay", default=None)
    ap.add_argument("--seed", type=int, default=int(os.environ.get("VERIF_SEED", "0") or 0))
    args = ap.parse_args(argv)

    limit = int(os.environ.get("VERIF_TIMEOUT", "1500" if args.tier == "quick" else "7200"))

    def on_alarm(_sig, _frm):
        print(f"[{args.prop}] timeout after {limit}s (infrastructure)", flush=True)
        os._exit(2)

    signal.signal(signal.SIGALRM, on_alarm)
    signal.alarm(limit)

    try:
        mod = importlib.import_module(f"harness.props.{args.prop}")
    except ModuleNotFoundError:
        print(f"no check for property {args.prop}")
        return 2
    ctx = core.Ctx(args.prop, args.tier, args.seed)
    report = core.Report(args.prop, args.tier, args.seed)
    try:
        status = core.build_and_audit(args.prop, getattr(mod, "translate", None), thorough=ctx.thorough)
        try:
            ctx.lean = core.LeanDriver()
        except Exception as exc:  # driver could not be built
            status.problem("driver", str(exc))
        if args.replay:
            return mod.replay(ctx, report, args.replay)
        if ctx.lean is not None:
            try:
                mod.run(ctx, report, status)
            except Exception as exc:  # pylint: disable=broad-except
                # The comparison itself could not be carried out on what the implementation returned (an output the
                # wire format or the model cannot even express, a changed signature, ...).  That is a correspondence
                # that no longer checks, not an infrastructure failure: spec failures already recorded are reported
                # with their replay, otherwise the directed search runs (DESIGN.md section 6).
                tb = traceback.format_exc()
                print(tb)
                status.problem("correspondence", f"the check stopped on the implementation's output: {type(exc).__name__}: {str(exc)[:300]}",
                               tb[-3000:])
        search = (lambda: mod.search(ctx, report, status)) if hasattr(mod, "search") else None
        code = core.finish(ctx, status, report, search=search, extra=getattr(mod, "extra_evidence", lambda: None)())
        return code
    except Exception:  # pylint: disable=broad-except
        traceback.print_exc()
        print(f"[{args.prop}] infrastructure failure")
        return 2
    finally:
        if ctx.lean is not None:
            ctx.lean.close()


if __name__ == "__main__":
    sys.exit(main())
