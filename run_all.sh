#!/bin/bash
# Run every claimed check (quick tier by default) a few at a time; prints one summary line per check.
cd "$(dirname "$0")"
TIER="${1:-quick}"
python3 - <<'PY' > /tmp/.claimed.$$
import json
print("\n".join(c["property_id"] for c in json.load(open("MANIFEST.json"))["checks"]))
PY
mkdir -p /tmp/verif_runall
cat /tmp/.claimed.$$ | xargs -P 4 -I{} sh -c "./check {} --tier $TIER > /tmp/verif_runall/{}.log 2>&1; echo \"{} exit=\$? \$(grep -E 'VIOLATION|KNOWN-FINDING' /tmp/verif_runall/{}.log | wc -l) lines; \$(tail -1 /tmp/verif_runall/{}.log | cut -c1-160)\""
rm -f /tmp/.claimed.$$
