#!/usr/bin/env python3
"""Regenerate MANIFEST.json from the list of built checks (harness/props/Cxx.py present)."""
import json
import os

HERE = os.path.dirname(os.path.abspath(__file__))
BASELINE = ("cd /repo && /venv/bin/python -m pytest -ra -q -p no:cacheprovider --timeout=900 "
            "--continue-on-collection-errors --junitxml=/tmp/pandora-baseline.junit.xml")

LEVELS = {}
for fn in sorted(os.listdir(os.path.join(HERE, "levels"))):
    if fn.endswith(".json"):
        LEVELS[fn[:-5]] = json.load(open(os.path.join(HERE, "levels", fn)))

# known findings: one file per property under known_findings.d/, aggregated into known_findings.json
findings = []
for fn in sorted(os.listdir(os.path.join(HERE, "known_findings.d"))):
    if fn.endswith(".json"):
        findings.extend(json.load(open(os.path.join(HERE, "known_findings.d", fn)))["findings"])
json.dump({"findings": findings}, open(os.path.join(HERE, "known_findings.json"), "w"), indent=1)
props = [json.loads(l) for l in open(os.path.join(HERE, "properties.jsonl"))]
checks = []
na = []
for p in props:
    pid = p["id"]
    if os.path.exists(os.path.join(HERE, "harness", "props", pid + ".py")) and pid in LEVELS:
        lv = LEVELS[pid]
        checks.append({
            "property_id": pid,
            "quick_cmd": f"./check {pid} --tier quick",
            "thorough_cmd": f"./check {pid} --tier thorough",
            "evidence_file": f"evidence/{pid}.json",
            "replay_cmd_template": f"./check {pid} --replay {{path}}",
            "engine": "lean-model+correspondence",
            "level_claimed": {"category": "proof", "text": lv["text"], "design_ref": lv.get("design_ref", "DESIGN.md §8 " + pid)},
            "level_note": lv["note"],
            "technique": lv["technique"],
        })
    else:
        na.append({"property_id": pid, "reason": LEVELS.get(pid, {}).get("na", "check not built yet in this round; no claim is made")})
manifest = {
    "version": 1,
    "setup_cmd": "./setup.sh",
    "hooks": {
        "guard": "CNES_PANDORA_VERIF",
        "enable": "no hook is needed: callbacks are observed from a PandoraMachine subclass and stub plugins registered "
                  "through the public register_subclass decorators (harness/impl/machine_stubs.py)",
        "baseline_off_cmd": BASELINE,
        "source_commits": [],
        "add_only": True,
    },
    "engines": [
        {"name": "lean-model", "path": "lean/", "serves_properties": [c["property_id"] for c in checks],
         "kind_free_text": "Lean 4 executable model + theorems (lake project PandoraModel), axioms audited on every run"},
        {"name": "translator", "path": "translator/", "serves_properties": [c["property_id"] for c in checks],
         "kind_free_text": "Python ast extractors regenerating lean/PandoraModel/Generated/*.lean from /repo's working tree"},
        {"name": "correspondence", "path": "harness/", "serves_properties": [c["property_id"] for c in checks],
         "kind_free_text": "differential harness: real Pandora in-process vs the compiled Lean driver over a JSON line protocol; "
                           "the Lean specification is also evaluated on the implementation's outputs"},
    ],
    "checks": checks,
    "not_applicable": na,
    "notes": "See DESIGN.md. Exit codes: 0 held, 1 violation, 2 infrastructure failure/timeout.",
}
json.dump(manifest, open(os.path.join(HERE, "MANIFEST.json"), "w"), indent=1)
print("checks:", [c["property_id"] for c in checks], "not_applicable:", len(na))
