#!/usr/bin/env python3
"""Coverage audit of the correspondence:  which lines of each property's anchor files does its check execute?

    /venv/bin/python tools_coverage.py [C01 C02 ...] [--tier quick] [--jobs 4]

For every claimed property the check is run once under coverage.py (python-level lines of the `pandora` package of
PANDORA_REPO; lines inside numba-compiled functions are invisible to coverage.py and are listed separately as
"compiled").  The report (DESIGN_NOTES/coverage.md + coverage.json) lists, per property, the anchor files, the
share of their interpretable statements the check executed and the missed line ranges — these are the places where
the generators never send the implementation, i.e. where a change would be seen by nobody.  This is a measurement
of the tie between model and code (the generator quality that bounds the correspondence), never a verdict.
"""
from __future__ import annotations

import argparse
import ast
import json
import os
import subprocess
import sys
import tempfile
from concurrent.futures import ThreadPoolExecutor

HERE = os.path.dirname(os.path.abspath(__file__))
REPO = os.environ.get("PANDORA_REPO", "/repo")


def anchors():
    out = {}
    for line in open(os.path.join(HERE, "properties.jsonl")):
        p = json.loads(line)
        a = p["anchors"]
        if isinstance(a, str):
            a = ast.literal_eval(a)
        out[p["id"]] = [f for f in a["files"] if f.endswith(".py")]
    return out


def compiled_lines(path):
    """line numbers inside functions decorated with njit/jit/vectorize (bodies coverage.py cannot see)"""
    tree = ast.parse(open(path).read())
    hidden = set()
    for node in ast.walk(tree):
        if isinstance(node, (ast.FunctionDef,)):
            for d in node.decorator_list:
                txt = ast.unparse(d)
                if "njit" in txt or "jit(" in txt or txt.endswith("jit") or "vectorize" in txt:
                    body0 = node.body[0].lineno
                    hidden.update(range(body0, node.end_lineno + 1))
    return hidden


def run_one(prop, tier, workdir):
    datafile = os.path.join(workdir, f"cov.{prop}")
    env = dict(os.environ)
    env.update(
        PANDORA_REPO=REPO,
        PYTHONPATH=f"{HERE}:{REPO}",
        NUMBA_CACHE_DIR=os.path.join(HERE, ".numba_cache"),
        PYTHONDONTWRITEBYTECODE="1",
        PYTHONWARNINGS="ignore",
        COVERAGE_FILE=datafile,
        VERIF_EVIDENCE_DIR=os.path.join(workdir, "evidence"),  # keep the committed evidence untouched
    )
    cmd = ["/venv/bin/python", "-m", "coverage", "run", f"--source={REPO}/pandora", "-m", "harness.main", prop,
           "--tier", tier]
    r = subprocess.run(cmd, cwd=HERE, env=env, capture_output=True, text=True)
    tail = (r.stdout.strip().splitlines() or [""])[-1]
    js = os.path.join(workdir, f"cov.{prop}.json")
    subprocess.run(["/venv/bin/python", "-m", "coverage", "json", "-q", "-o", js], cwd=HERE, env=env,
                   capture_output=True, text=True)
    data = json.load(open(js)) if os.path.exists(js) else {"files": {}}
    return prop, r.returncode, tail, data


def ranges(nums):
    nums = sorted(nums)
    out, i = [], 0
    while i < len(nums):
        j = i
        while j + 1 < len(nums) and nums[j + 1] == nums[j] + 1:
            j += 1
        out.append(f"{nums[i]}" if i == j else f"{nums[i]}-{nums[j]}")
        i = j + 1
    return out


def main():
    ap = argparse.ArgumentParser()
    ap.add_argument("props", nargs="*")
    ap.add_argument("--tier", default="quick")
    ap.add_argument("--jobs", type=int, default=4)
    args = ap.parse_args()
    anc = anchors()
    props = args.props or sorted(anc)
    report = {}
    with tempfile.TemporaryDirectory(prefix="verifcov") as wd:
        with ThreadPoolExecutor(args.jobs) as ex:
            for prop, code, tail, data in ex.map(lambda p: run_one(p, args.tier, wd), props):
                files = {}
                for rel in anc[prop]:
                    full = os.path.join(REPO, rel)
                    rec = data["files"].get(full) or next(
                        (v for k, v in data["files"].items() if k.endswith("/" + rel)), None)
                    if rec is None:
                        files[rel] = {"executed": 0, "statements": None, "missed": ["file never imported"]}
                        continue
                    hidden = compiled_lines(full)
                    miss = [n for n in rec["missing_lines"] if n not in hidden]
                    execd = [n for n in rec["executed_lines"]]
                    stmts = len(execd) + len(miss)
                    files[rel] = {"executed": len(execd), "statements": stmts,
                                  "compiled_lines": len(hidden), "missed": ranges(miss)}
                report[prop] = {"exit": code, "last_line": tail, "files": files}
                print(prop, code, tail[:120], flush=True)
    json.dump(report, open(os.path.join(HERE, "DESIGN_NOTES", "coverage.json"), "w"), indent=1, sort_keys=True)
    with open(os.path.join(HERE, "DESIGN_NOTES", "coverage.md"), "w") as f:
        f.write("# Lines of each property's anchor files executed by its own check (generated by tools_coverage.py)\n\n")
        f.write(f"Tier: {args.tier}. Python-level statements only; bodies of numba-compiled functions are invisible to\n"
                "coverage.py (column `compiled`) and are exercised through their callers. A missed range is a place the\n"
                "generators of that property never reach (another property's check may reach it).\n\n")
        for prop in sorted(report):
            f.write(f"## {prop} (exit {report[prop]['exit']})\n\n| file | executed / statements | compiled | missed lines |\n|---|---|---|---|\n")
            for rel, r in report[prop]["files"].items():
                f.write(f"| {rel} | {r['executed']} / {r['statements']} | {r.get('compiled_lines', '')} | {', '.join(r['missed'])} |\n")
            f.write("\n")
    return 0


if __name__ == "__main__":
    sys.exit(main())
