#!/bin/bash
# Build the framework offline from files on disk: regenerate the translated Lean files from /repo,
# build the compiled driver and every property module.
set -e
cd "$(dirname "$0")"
export PYTHONPATH="$(pwd)"
/venv/bin/python -m translator.all
cd lean
lake build driver
lake build
