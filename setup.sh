#!/bin/bash
# Build the framework offline from files on disk: regenerate the translated Lean files from /repo,
# build the compiled driver and every property module.  A property whose translation or proof no longer
# builds is reported by its own check (./check Cxx); it must not prevent the other checks from being set up.
cd "$(dirname "$0")"
export PYTHONPATH="$(pwd)"
/venv/bin/python -m translator.all || echo "setup: some extractor failed (reported again by the checks that depend on it)"
cd lean
lake build driver || exit 1
lake build || {
  echo "setup: full library build failed; building the property modules one by one"
  for f in PandoraModel/Properties/C*.lean; do
    m="PandoraModel.Properties.$(basename "$f" .lean)"
    lake build "$m" > /dev/null 2>&1 || echo "setup: $m does not build"
  done
}
exit 0
